"""C04: key-roll state machine.  apply_* never reach a panic arm in the phases in which the emit side produces their
event; emit functions produce key events only in the phase in which they are enabled."""
from vxlib import Unit
from units import prelude

RC = 'src/server/ca/rc.rs'
KEYS = 'src/server/ca/keys.rs'
EV = 'src/server/ca/events.rs'
ERR = 'src/commons/error.rs'

KEY_EVENTS = ['CertificateRequested', 'CertificateReceived', 'KeyRollPendingKeyAdded', 'KeyPendingToNew', 'KeyPendingToActive',
              'KeyRollActivated', 'KeyRollFinished', 'RoasUpdated', 'AspaObjectsUpdated', 'ChildCertificatesUpdated',
              'BgpSecCertificatesUpdated']


def build():
    U = Unit('c04_keystate', 'C04', 'key-roll state machine: emitted key events are enabled where they are applied; apply_* panic arms unreachable')
    prelude.strings(U)
    U.opaque('KeyIdentifier', 'Clone, Copy, PartialEq, Eq', eq=True)
    for t in ['ReceivedCert', 'IssuanceRequest', 'RepoInfo', 'RevocationRequest', 'ResourceClassName', 'ParentHandle', 'CaHandle']:
        U.opaque(t, 'Clone')
    for t in ['Roas', 'AspaObjects', 'BgpSecCertificates', 'ChildCertificates', 'RoaUpdates', 'AspaObjectsUpdates',
              'ChildCertificateUpdates', 'BgpSecCertificateUpdates']:
        U.opaque(t, 'Clone', clone_spec=False)
    for t in ['Routes', 'AspaDefinitions', 'BgpSecDefinitions', 'Config', 'KrillSigner', 'IssuanceTimingConfig', 'SignerError', 'ResourceSet', 'KeyInfo', 'ResourceClassEntitlements']:
        U.opaque(t, '')
    prelude.time(U)
    U.outside('''
pub type KrillResult<T> = Result<T, Error>;
pub type CurrentKey = CertifiedKey;
pub type NewKey = CertifiedKey;
pub use Error as KrillError;
impl ReceivedCert { pub fn key_identifier(&self) -> KeyIdentifier { unimplemented!() } pub fn resources(&self) -> &ResourceSet { unimplemented!() } }
impl KrillSigner {
    pub fn create_key(&self) -> Result<KeyIdentifier, Error> { unimplemented!() }
    pub fn get_key_info(&self, _k: &KeyIdentifier) -> Result<KeyInfo, SignerError> { unimplemented!() }
}
impl KeyInfo { pub fn key_identifier(&self) -> KeyIdentifier { unimplemented!() } }
impl Error { pub fn signer(_e: SignerError) -> Self { unimplemented!() } }
impl RevocationRequest { pub fn new(_c: ResourceClassName, _k: KeyIdentifier) -> Self { unimplemented!() } }
impl ResourceClassEntitlements { pub fn resource_set(&self) -> &ResourceSet { unimplemented!() } pub fn not_after(&self) -> Time { unimplemented!() } }
impl Roas { pub fn create_renewal(&self, _f: bool, _k: &CertifiedKey, _t: &IssuanceTimingConfig, _s: &KrillSigner) -> KrillResult<RoaUpdates> { unimplemented!() } }
impl AspaObjects { pub fn create_renewal(&self, _k: &CertifiedKey, _r: Option<Time>, _t: &IssuanceTimingConfig, _s: &KrillSigner) -> KrillResult<AspaObjectsUpdates> { unimplemented!() } }
impl BgpSecCertificates { pub fn create_renewal(&self, _k: &CertifiedKey, _r: Option<Time>, _t: &IssuanceTimingConfig, _s: &KrillSigner) -> KrillResult<BgpSecCertificateUpdates> { unimplemented!() } }
impl ChildCertificates { pub fn activate_key(&self, _c: &ReceivedCert, _t: &IssuanceTimingConfig, _s: &KrillSigner) -> KrillResult<ChildCertificateUpdates> { unimplemented!() } }
impl Default for RoaUpdates { fn default() -> Self { unimplemented!() } }
impl Default for AspaObjectsUpdates { fn default() -> Self { unimplemented!() } }
impl Default for BgpSecCertificateUpdates { fn default() -> Self { unimplemented!() } }
impl IssuanceTimingConfig {
    pub fn new_aspa_issuance_threshold(&self) -> Time { unimplemented!() }
    pub fn new_bgpsec_issuance_threshold(&self) -> Time { unimplemented!() }
}
impl RoaUpdates { pub fn is_empty(&self) -> bool { unimplemented!() } }
impl AspaObjectsUpdates { pub fn is_empty(&self) -> bool { unimplemented!() } }
impl BgpSecCertificateUpdates { pub fn is_empty(&self) -> bool { unimplemented!() } }
impl ChildCertificateUpdates { pub fn is_empty(&self) -> bool { unimplemented!() } }
''')
    U.add('''
pub uninterp spec fn ki_of(c: ReceivedCert) -> KeyIdentifier;
pub assume_specification [ReceivedCert::key_identifier] (c: &ReceivedCert) -> (r: KeyIdentifier) ensures r == ki_of(*c);
pub assume_specification [KrillSigner::create_key] (s: &KrillSigner) -> (r: Result<KeyIdentifier, Error>);
pub assume_specification [KrillSigner::get_key_info] (s: &KrillSigner, k: &KeyIdentifier) -> (r: Result<KeyInfo, SignerError>);
pub assume_specification [KeyInfo::key_identifier] (s: &KeyInfo) -> (r: KeyIdentifier);
pub assume_specification [Error::signer] (e: SignerError) -> (r: Error);
pub assume_specification [RevocationRequest::new] (c: ResourceClassName, k: KeyIdentifier) -> (r: RevocationRequest);
/// the key under which the objects of an update set were issued (ghost; the signing itself is outside)
pub uninterp spec fn roas_issued_under(u: RoaUpdates) -> Option<CertifiedKey>;
pub uninterp spec fn aspas_issued_under(u: AspaObjectsUpdates) -> Option<CertifiedKey>;
pub uninterp spec fn bgpsec_issued_under(u: BgpSecCertificateUpdates) -> Option<CertifiedKey>;
pub uninterp spec fn certs_issued_under(u: ChildCertificateUpdates) -> Option<ReceivedCert>;
/// what the object collections answer to a renewal request (their own contracts: units c14_renewal, c14_aspa_renewal, c01_bgpsec)
pub uninterp spec fn roa_renewal_of(x: Roas, f: bool, k: CertifiedKey, t: IssuanceTimingConfig) -> KrillResult<RoaUpdates>;
pub uninterp spec fn aspa_renewal_of(x: AspaObjects, k: CertifiedKey, o: Option<Time>, t: IssuanceTimingConfig) -> KrillResult<AspaObjectsUpdates>;
pub uninterp spec fn bgpsec_renewal_of(x: BgpSecCertificates, k: CertifiedKey, o: Option<Time>, t: IssuanceTimingConfig) -> KrillResult<BgpSecCertificateUpdates>;
pub uninterp spec fn aspa_threshold(t: IssuanceTimingConfig) -> Time;
pub uninterp spec fn bgpsec_threshold(t: IssuanceTimingConfig) -> Time;
pub assume_specification [Roas::create_renewal] (x: &Roas, f: bool, k: &CertifiedKey, t: &IssuanceTimingConfig, s: &KrillSigner) -> (r: KrillResult<RoaUpdates>)
    ensures r is Ok ==> roas_issued_under(r->Ok_0) == Some(*k), r == roa_renewal_of(*x, f, *k, *t);
pub assume_specification [<RoaUpdates as Default>::default] () -> (r: RoaUpdates) ensures roas_issued_under(r) is None;
pub assume_specification [<AspaObjectsUpdates as Default>::default] () -> (r: AspaObjectsUpdates) ensures aspas_issued_under(r) is None;
pub assume_specification [<BgpSecCertificateUpdates as Default>::default] () -> (r: BgpSecCertificateUpdates) ensures bgpsec_issued_under(r) is None;
pub assume_specification [IssuanceTimingConfig::new_aspa_issuance_threshold] (t: &IssuanceTimingConfig) -> (r: Time) ensures r == aspa_threshold(*t);
pub assume_specification [IssuanceTimingConfig::new_bgpsec_issuance_threshold] (t: &IssuanceTimingConfig) -> (r: Time) ensures r == bgpsec_threshold(*t);
pub assume_specification [AspaObjects::create_renewal] (x: &AspaObjects, k: &CertifiedKey, o: Option<Time>, t: &IssuanceTimingConfig, s: &KrillSigner) -> (r: KrillResult<AspaObjectsUpdates>)
    ensures r is Ok ==> aspas_issued_under(r->Ok_0) == Some(*k), r == aspa_renewal_of(*x, *k, o, *t);
pub assume_specification [BgpSecCertificates::create_renewal] (x: &BgpSecCertificates, k: &CertifiedKey, o: Option<Time>, t: &IssuanceTimingConfig, s: &KrillSigner) -> (r: KrillResult<BgpSecCertificateUpdates>)
    ensures r is Ok ==> bgpsec_issued_under(r->Ok_0) == Some(*k), r == bgpsec_renewal_of(*x, *k, o, *t);
pub assume_specification [ChildCertificates::activate_key] (x: &ChildCertificates, c: &ReceivedCert, t: &IssuanceTimingConfig, s: &KrillSigner) -> (r: KrillResult<ChildCertificateUpdates>)
    ensures r is Ok ==> certs_issued_under(r->Ok_0) == Some(*c);
pub assume_specification [RoaUpdates::is_empty] (x: &RoaUpdates) -> (r: bool);
pub assume_specification [AspaObjectsUpdates::is_empty] (x: &AspaObjectsUpdates) -> (r: bool);
pub assume_specification [BgpSecCertificateUpdates::is_empty] (x: &BgpSecCertificateUpdates) -> (r: bool);
pub assume_specification [ChildCertificateUpdates::is_empty] (x: &ChildCertificateUpdates) -> (r: bool);

// ---- abstraction ----
pub enum Phase { Pending, Active, RollPending, RollNew, RollOld }
pub open spec fn phase(k: KeyState) -> Phase {
    match k { KeyState::Pending(_) => Phase::Pending, KeyState::Active(_) => Phase::Active, KeyState::RollPending(_, _) => Phase::RollPending,
              KeyState::RollNew(_, _) => Phase::RollNew, KeyState::RollOld(_, _) => Phase::RollOld }
}
/// the phase in which applying `ev` does not reach a panic arm (= the preconditions of the apply_* functions below,
/// in the order in which CertAuth::apply dispatches to them)
pub open spec fn ev_enabled(ev: CertAuthEvent, ks: KeyState) -> bool {
    match ev {
        CertAuthEvent::CertificateReceived { .. } => !(phase(ks) is Pending),
        CertAuthEvent::KeyRollPendingKeyAdded { .. } => phase(ks) is Active,
        CertAuthEvent::KeyPendingToNew { .. } => phase(ks) is RollPending,
        CertAuthEvent::KeyPendingToActive { .. } => phase(ks) is Pending,
        CertAuthEvent::KeyRollActivated { .. } => phase(ks) is RollNew,
        CertAuthEvent::KeyRollFinished { .. } => phase(ks) is RollOld,
        _ => true,
    }
}
/// every object-update event in evs[from..] carries objects issued under key `k`
pub open spec fn objects_under(evs: Seq<CertAuthEvent>, from: int, k: CertifiedKey) -> bool {
    forall |i: int| from <= i < evs.len() ==> match #[trigger] evs[i] {
        CertAuthEvent::RoasUpdated { updates, .. } => roas_issued_under(updates) == Some(k),
        CertAuthEvent::AspaObjectsUpdated { updates, .. } => aspas_issued_under(updates) == Some(k),
        CertAuthEvent::BgpSecCertificatesUpdated { updates, .. } => bgpsec_issued_under(updates) == Some(k),
        CertAuthEvent::ChildCertificatesUpdated { updates, .. } => certs_issued_under(updates) == Some(k.incoming_cert),
        _ => true,
    }
}
/// `this key's certificate no longer matches the entitlement` (CertifiedKey::wants_update: unit c02_wants)
pub uninterp spec fn wants(k: CertifiedKey, e: ResourceClassEntitlements) -> bool;
pub uninterp spec fn ent_res(e: ResourceClassEntitlements) -> ResourceSet;
pub uninterp spec fn ent_na(e: ResourceClassEntitlements) -> Time;
pub assume_specification [ResourceClassEntitlements::resource_set] (e: &ResourceClassEntitlements) -> (r: &ResourceSet) ensures *r == ent_res(*e);
pub assume_specification [ResourceClassEntitlements::not_after] (e: &ResourceClassEntitlements) -> (r: Time) ensures r == ent_na(*e);
pub uninterp spec fn wants_raw(k: CertifiedKey, res: ResourceSet, na: Time) -> bool;
pub open spec fn requested(reqs: Seq<(&RepoInfo, KeyIdentifier)>, k: KeyIdentifier) -> bool { exists |i: int| 0 <= i < reqs.len() && (#[trigger] reqs[i]).1 == k }
/// the keys a certificate can be delivered to in this phase (process_received_cert accepts exactly these: the pending or staged key
/// and the current key; NEVER the old key of a roll, whose certificate is awaiting revocation -- a request for it would be refused on
/// delivery and the class dropped)
pub open spec fn can_take_cert(ks: KeyState, k: KeyIdentifier) -> bool {
    match ks {
        KeyState::Pending(p) => k == p.key_id,
        KeyState::Active(c) => k == c.key_id,
        KeyState::RollPending(p, c) => k == p.key_id || k == c.key_id,
        KeyState::RollNew(n, c) => k == n.key_id || k == c.key_id,
        KeyState::RollOld(c, _o) => k == c.key_id,
    }
}
/// what the (separately contracted: units c02_rcvd, c01_*) handlers for a certificate of the current / the first key return
pub uninterp spec fn evs_current(rc: ResourceClass, key: CertifiedKey, c: ReceivedCert) -> Seq<CertAuthEvent>;
pub uninterp spec fn evs_pending(rc: ResourceClass, c: ReceivedCert) -> Seq<CertAuthEvent>;
/// events that do not touch the key state
/// every key the class holds in this phase of a roll: pending / new (staged), current, old -- a certificate the parent lists for
/// any of them is the CA's own, never an "unexpected key" to be revoked
pub open spec fn own_key(ks: KeyState, k: KeyIdentifier) -> bool {
    match ks {
        KeyState::Pending(p) => p.key_id == k,
        KeyState::Active(c) => c.key_id == k,
        KeyState::RollPending(p, c) => p.key_id == k || c.key_id == k,
        KeyState::RollNew(n, c) => n.key_id == k || c.key_id == k,
        KeyState::RollOld(c, o) => c.key_id == k || o.key.key_id == k,
    }
}
pub open spec fn key_neutral(ev: CertAuthEvent) -> bool {
    ev is CertificateRequested || ev is RoasUpdated || ev is AspaObjectsUpdated || ev is ChildCertificatesUpdated || ev is BgpSecCertificatesUpdated
}
''')
    for st in ['CertifiedKey', 'PendingKey', 'OldKey']:
        U.struct(KEYS, st, derive=['Clone'])
    U.enum(KEYS, 'KeyState', derive=['Clone'])
    U.struct(RC, 'ResourceClass', derive=[])
    U.enum(EV, 'CertAuthEvent', keep=KEY_EVENTS, derive=[])
    U.enum(ERR, 'Error', keep=['KeyUseNoMatch', 'KeyUseNoOldKey', 'KeyUseNoNewKey', 'KeyRollActivatePendingRequests', 'KeyUseNoCurrentKey'], derive=[])

    U.impl('impl CertifiedKey', [
        U.fn(KEYS, 'CertifiedKey', 'create', ensures=[('fields', 'r.key_id == ki_of(incoming_cert), r.incoming_cert == incoming_cert, r.request is None')]),
        U.fn(KEYS, 'CertifiedKey', 'key_id', ensures=[('is_field', 'r == self.key_id')]),
        U.fn(KEYS, 'CertifiedKey', 'incoming_cert', ensures=[('is_field', '*r == self.incoming_cert')]),
        U.fn(KEYS, 'CertifiedKey', 'set_incoming_cert', ensures=[
            ('clears_request', 'final(self).request is None'),
            ('sets_cert', 'final(self).incoming_cert == cert, final(self).key_id == old(self).key_id')]),
    ])
    U.impl('impl CertifiedKey', [
        U.fn(KEYS, 'CertifiedKey', 'wants_update', external_body=True, ensures=[('assumed', 'r == wants_raw(*self, *new_resources, new_not_after)')]),
    ])
    U.impl('impl PendingKey', [
        U.fn(KEYS, 'PendingKey', 'new', ensures=[('fields', 'r.key_id == key_id, r.request is None')]),
        U.fn(KEYS, 'PendingKey', 'key_id', ensures=[('is_field', 'r == self.key_id')]),
    ])
    U.impl('impl OldKey', [
        U.fn(KEYS, 'OldKey', 'new', ensures=[('fields', 'r.key == key, r.revoke_req == revoke_req')]),
        U.fn(KEYS, 'OldKey', 'set_incoming_cert', ensures=[
            ('clears_request', 'final(self).key.request is None'),
            ('frame', 'final(self).key.key_id == old(self).key.key_id, final(self).revoke_req == old(self).revoke_req')]),
    ])
    # ---- apply side: precondition = the non-panicking phase ----
    U.impl('impl ResourceClass', [
        U.fn(RC, 'ResourceClass', 'apply_received_cert',
             requires=[('enabled', '!(phase(old(self).key_state) is Pending)')],
             ensures=[('phase_kept', 'phase(final(self).key_state) == phase(old(self).key_state)'),
                      ('active_gets_cert', 'old(self).key_state is Active ==> final(self).key_state->Active_0.incoming_cert == cert && final(self).key_state->Active_0.request is None')]),
        U.fn(RC, 'ResourceClass', 'apply_pending_key_id_added',
             requires=[('enabled', 'phase(old(self).key_state) is Active')],
             ensures=[('to_roll_pending', 'phase(final(self).key_state) is RollPending'),
                      ('current_kept', 'final(self).key_state->RollPending_1 == old(self).key_state->Active_0'),
                      ('pending_is_new_key', 'final(self).key_state->RollPending_0.key_id == key_id')]),
        U.fn(RC, 'ResourceClass', 'apply_pending_key_to_new',
             requires=[('enabled', 'phase(old(self).key_state) is RollPending')],
             ensures=[('to_roll_new', 'phase(final(self).key_state) is RollNew'),
                      ('keys', 'final(self).key_state->RollNew_0 == new, final(self).key_state->RollNew_1 == old(self).key_state->RollPending_1')]),
        U.fn(RC, 'ResourceClass', 'apply_pending_key_to_active',
             requires=[('enabled', 'phase(old(self).key_state) is Pending')],
             ensures=[('to_active', 'final(self).key_state == KeyState::Active(new)')]),
        U.fn(RC, 'ResourceClass', 'apply_new_key_activated',
             requires=[('enabled', 'phase(old(self).key_state) is RollNew')],
             ensures=[('to_roll_old', 'phase(final(self).key_state) is RollOld'),
                      ('new_becomes_current', 'final(self).key_state->RollOld_0 == old(self).key_state->RollNew_0'),
                      ('current_becomes_old', 'final(self).key_state->RollOld_1.key == old(self).key_state->RollNew_1, final(self).key_state->RollOld_1.revoke_req == revoke_req')]),
        U.fn(RC, 'ResourceClass', 'apply_old_key_removed',
             requires=[('enabled', 'phase(old(self).key_state) is RollOld')],
             ensures=[('single_active_key', 'final(self).key_state == KeyState::Active(old(self).key_state->RollOld_0)')]),
        # ---- emit side ----
        U.fn(RC, 'ResourceClass', 'process_keyroll_finish', ensures=[
            ('only_from_roll_old', 'r is Ok ==> phase(self.key_state) is RollOld && r->Ok_0 is KeyRollFinished && ev_enabled(r->Ok_0, self.key_state)'),
            ('err_otherwise', 'r is Err ==> !(phase(self.key_state) is RollOld)')]),
        U.fn(RC, 'ResourceClass', 'current_key', ensures=[('current_of_phase', '''match self.key_state {
                KeyState::Pending(_) => r is None, KeyState::Active(c) => r is Some && *r->Some_0 == c, KeyState::RollPending(_, c) => r is Some && *r->Some_0 == c,
                KeyState::RollNew(_, c) => r is Some && *r->Some_0 == c, KeyState::RollOld(c, _) => r is Some && *r->Some_0 == c }''')]),
        U.fn(RC, 'ResourceClass', 'get_current_key', ensures=[('same', '''match self.key_state {
                KeyState::Pending(_) => r is Err, KeyState::Active(c) => r is Ok && *r->Ok_0 == c, KeyState::RollPending(_, c) => r is Ok && *r->Ok_0 == c,
                KeyState::RollNew(_, c) => r is Ok && *r->Ok_0 == c, KeyState::RollOld(c, _) => r is Ok && *r->Ok_0 == c }''')]),
        # the periodic renewals sign with the CURRENT key
        U.fn(RC, 'ResourceClass', 'create_roa_renewal', ensures=[('renewal_runs_in_every_phase_that_has_a_current_key', '!(phase(self.key_state) is Pending) ==> r == roa_renewal_of(self.roas, force, (match self.key_state { KeyState::Active(c) => c, KeyState::RollPending(_, c) => c, KeyState::RollNew(_, c) => c, KeyState::RollOld(c, _) => c, KeyState::Pending(_) => arbitrary() }), *issuance_timing)'), ('under_current_key', '''r is Ok && roas_issued_under(r->Ok_0) is Some ==>
                !(phase(self.key_state) is Pending) && roas_issued_under(r->Ok_0)->Some_0 == (match self.key_state { KeyState::Active(c) => c, KeyState::RollPending(_, c) => c,
                    KeyState::RollNew(_, c) => c, KeyState::RollOld(c, _) => c, KeyState::Pending(_) => arbitrary() })''')]),
        U.fn(RC, 'ResourceClass', 'create_aspa_renewal', ensures=[('renewal_runs_in_every_phase_that_has_a_current_key', '!(phase(self.key_state) is Pending) ==> r == aspa_renewal_of(self.aspas, (match self.key_state { KeyState::Active(c) => c, KeyState::RollPending(_, c) => c, KeyState::RollNew(_, c) => c, KeyState::RollOld(c, _) => c, KeyState::Pending(_) => arbitrary() }), Some(aspa_threshold(*issuance_timing)), *issuance_timing)'), ('under_current_key', '''r is Ok && aspas_issued_under(r->Ok_0) is Some ==>
                !(phase(self.key_state) is Pending) && aspas_issued_under(r->Ok_0)->Some_0 == (match self.key_state { KeyState::Active(c) => c, KeyState::RollPending(_, c) => c,
                    KeyState::RollNew(_, c) => c, KeyState::RollOld(c, _) => c, KeyState::Pending(_) => arbitrary() })''')]),
        U.fn(RC, 'ResourceClass', 'create_bgpsec_renewal', ensures=[('renewal_runs_in_every_phase_that_has_a_current_key', '!(phase(self.key_state) is Pending) ==> r == bgpsec_renewal_of(self.bgpsec_certificates, (match self.key_state { KeyState::Active(c) => c, KeyState::RollPending(_, c) => c, KeyState::RollNew(_, c) => c, KeyState::RollOld(c, _) => c, KeyState::Pending(_) => arbitrary() }), Some(bgpsec_threshold(*issuance_timing)), *issuance_timing)'), ('under_current_key', '''r is Ok && bgpsec_issued_under(r->Ok_0) is Some ==>
                !(phase(self.key_state) is Pending) && bgpsec_issued_under(r->Ok_0)->Some_0 == (match self.key_state { KeyState::Active(c) => c, KeyState::RollPending(_, c) => c,
                    KeyState::RollNew(_, c) => c, KeyState::RollOld(c, _) => c, KeyState::Pending(_) => arbitrary() })''')]),
        # activation: all objects move to the NEW key in the same event set as KeyRollActivated
        U.fn(RC, 'ResourceClass', 'append_keyroll_activate', ensures=[
            ('activates_only_from_roll_new', 'r == Ok::<bool, Error>(true) ==> phase(self.key_state) is RollNew'),
            ('key_event_first_and_enabled', '''r == Ok::<bool, Error>(true) ==> final(events)@.len() > old(events)@.len()
                && final(events)@[old(events)@.len() as int] is KeyRollActivated && ev_enabled(final(events)@[old(events)@.len() as int], self.key_state)
                && (forall |i: int| 0 <= i < old(events)@.len() ==> final(events)@[i] == old(events)@[i])'''),
            ('all_objects_reissued_under_the_new_key', 'r == Ok::<bool, Error>(true) ==> objects_under(final(events)@, old(events)@.len() as int, self.key_state->RollNew_0)'),
            ('no_event_when_not_activating', 'r == Ok::<bool, Error>(false) ==> final(events)@ == old(events)@'),
        ]),
        U.fn(RC, 'ResourceClass', 'process_rcvd_cert_current', external_body=True, ensures=[('assumed', 'r is Ok ==> r->Ok_0@ == evs_current(*self, *current_key, rcvd_cert)')]),
        U.fn(RC, 'ResourceClass', 'process_rcvd_cert_pending', external_body=True, ensures=[('assumed', 'r is Ok ==> r->Ok_0@ == evs_pending(*self, rcvd_cert)')]),
        # a certificate for the key that is being rolled in never produces objects: the staged key publishes only its manifest and CRL
        U.fn(RC, 'ResourceClass', 'process_received_cert', ensures=[
            ('staged_key_certificate_only_recorded', '''r is Ok && self.key_state is RollNew && ki_of(rcvd_cert) == self.key_state->RollNew_0.key_id ==>
                    r->Ok_0@ == seq![CertAuthEvent::CertificateReceived { resource_class_name: self.name, ki: ki_of(rcvd_cert), rcvd_cert }]'''),
            ('pending_roll_key_becomes_new_key', '''r is Ok && self.key_state is RollPending && ki_of(rcvd_cert) == self.key_state->RollPending_0.key_id ==>
                    r->Ok_0@.len() == 1 && r->Ok_0@[0] is KeyPendingToNew && ev_enabled(r->Ok_0@[0], self.key_state)
                    && r->Ok_0@[0]->KeyPendingToNew_new_key.incoming_cert == rcvd_cert'''),
            ('otherwise_handled_for_the_current_key', '''r is Ok && !(self.key_state is Pending)
                    && !(self.key_state is RollNew && ki_of(rcvd_cert) == self.key_state->RollNew_0.key_id)
                    && !(self.key_state is RollPending && ki_of(rcvd_cert) == self.key_state->RollPending_0.key_id) ==>
                    r->Ok_0@ == evs_current(*self, (match self.key_state { KeyState::Active(c) => c, KeyState::RollPending(_, c) => c, KeyState::RollNew(_, c) => c,
                        KeyState::RollOld(c, _) => c, KeyState::Pending(_) => arbitrary() }), rcvd_cert)'''),
            ('first_certificate_only_for_the_pending_key', 'r is Ok && self.key_state is Pending ==> ki_of(rcvd_cert) == self.key_state->Pending_0.key_id && r->Ok_0@ == evs_pending(*self, rcvd_cert)'),
        ]),
        U.fn(RC, 'ResourceClass', 'key_roll_possible', ensures=[('iff_active', 'r == (phase(self.key_state) is Active)')]),
        U.fn(RC, 'ResourceClass', 'append_keyroll_initiate',
             ensures=[
            ('started_only_if_active', 'r == Ok::<bool, Error>(true) ==> phase(self.key_state) is Active'),
            ('events', '''r == Ok::<bool, Error>(true) ==> final(events)@.len() == old(events)@.len() + 2
                && final(events)@.subrange(0, old(events)@.len() as int) == old(events)@
                && final(events)@[old(events)@.len() as int] is KeyRollPendingKeyAdded
                && ev_enabled(final(events)@[old(events)@.len() as int], self.key_state)
                && key_neutral(final(events)@[old(events)@.len() as int + 1])'''),
            ('no_event_otherwise', 'r != Ok::<bool, Error>(true) ==> final(events)@ == old(events)@')]),
    ])
    U.impl('impl KeyState', [
        U.fn(KEYS, 'KeyState', 'append_keyroll_initiate', ensures=[
            ('started_only_if_active', 'r == Ok::<bool, Error>(true) ==> phase(*self) is Active'),
            ('events', '''r == Ok::<bool, Error>(true) ==> final(events)@.len() == old(events)@.len() + 2
                && final(events)@.subrange(0, old(events)@.len() as int) == old(events)@
                && final(events)@[old(events)@.len() as int] is KeyRollPendingKeyAdded
                && ev_enabled(final(events)@[old(events)@.len() as int], *self)
                && final(events)@[old(events)@.len() as int + 1] is CertificateRequested
                && final(events)@[old(events)@.len() as int + 1]->CertificateRequested_ki == final(events)@[old(events)@.len() as int]->pending_key_id'''),
            ('no_event_otherwise', 'r != Ok::<bool, Error>(true) ==> final(events)@ == old(events)@')]),
        U.fn(KEYS, 'KeyState', 'append_keyroll_activate', ensures=[
            ('only_from_roll_new_without_requests', '''r is Ok ==> phase(*self) is RollNew && self->RollNew_0.request is None && self->RollNew_1.request is None'''),
            ('one_enabled_event', '''r is Ok ==> final(events)@ == old(events)@.push(final(events)@.last())
                && final(events)@.last() is KeyRollActivated && ev_enabled(final(events)@.last(), *self)'''),
            ('err_no_event', 'r is Err ==> final(events)@ == old(events)@')]),
        # append_entitlement_events ends in a loop over an iterator adapter (outside the verifier); its selection of the keys to
        # request certificates for -- one `match` statement, lifted verbatim (R17) -- is verified: every pending key and every
        # certified key (new or current) whose certificate no longer matches the entitlement gets a request
        U.stmt_fn(KEYS, 'KeyState', 'append_entitlement_events', 'match self {', 'vx_keys_for_requests',
                  "<'a>(&'a self, handle: &CaHandle, rcn: ResourceClassName, entitlement: &ResourceClassEntitlements, base_repo: &'a RepoInfo, keys_for_requests0: Vec<(&'a RepoInfo, KeyIdentifier)>) -> (r: Vec<(&'a RepoInfo, KeyIdentifier)>)",
                  ghost_before='let mut keys_for_requests = keys_for_requests0;\n', tail='keys_for_requests',
                  ghost_after='''proof {
        let q = keys_for_requests@; let er = ent_res(*entitlement); let en = ent_na(*entitlement);
        if self is Pending { /*@hint_witness_1*/ assert(q[0].1 == self->Pending_0.key_id); }
        if self is Active { if wants_raw(self->Active_0, er, en) { /*@hint_witness_2*/ assert(q[0].1 == self->Active_0.key_id); } }
        if self is RollPending { /*@hint_witness_3*/ assert(q[0].1 == self->RollPending_0.key_id); if wants_raw(self->RollPending_1, er, en) { /*@hint_witness_4*/ assert(q[1].1 == self->RollPending_1.key_id); } }
        if self is RollNew {
            if wants_raw(self->RollNew_0, er, en) { /*@hint_witness_5*/ assert(q[0].1 == self->RollNew_0.key_id); if wants_raw(self->RollNew_1, er, en) { /*@hint_witness_6*/ assert(q[1].1 == self->RollNew_1.key_id); } }
            else if wants_raw(self->RollNew_1, er, en) { /*@hint_witness_7*/ assert(q[0].1 == self->RollNew_1.key_id); }
        }
        if self is RollOld { if wants_raw(self->RollOld_0, er, en) { /*@hint_witness_8*/ assert(q[0].1 == self->RollOld_0.key_id); } }
    }
''',
                  requires=[('starts_empty', 'keys_for_requests0@.len() == 0')],
                  ensures=[
                      ('pending_key_always_requests', '''(self is Pending ==> requested(r@, self->Pending_0.key_id)) && (self is RollPending ==> requested(r@, self->RollPending_0.key_id))'''),
                      ('staged_key_follows_the_entitlement', 'self is RollNew && wants_raw(self->RollNew_0, ent_res(*entitlement), ent_na(*entitlement)) ==> requested(r@, self->RollNew_0.key_id)'),
                      ('current_key_follows_the_entitlement', '''(self is Active && wants_raw(self->Active_0, ent_res(*entitlement), ent_na(*entitlement)) ==> requested(r@, self->Active_0.key_id))
                            && (self is RollPending && wants_raw(self->RollPending_1, ent_res(*entitlement), ent_na(*entitlement)) ==> requested(r@, self->RollPending_1.key_id))
                            && (self is RollNew && wants_raw(self->RollNew_1, ent_res(*entitlement), ent_na(*entitlement)) ==> requested(r@, self->RollNew_1.key_id))
                            && (self is RollOld && wants_raw(self->RollOld_0, ent_res(*entitlement), ent_na(*entitlement)) ==> requested(r@, self->RollOld_0.key_id))'''),
                      ('requests_only_for_keys_that_can_take_a_certificate_never_the_old_key', 'forall |i: int| 0 <= i < r@.len() ==> can_take_cert(*self, (#[trigger] r@[i]).1)'),
                      ('no_request_without_cause', '''self is Active && !wants_raw(self->Active_0, ent_res(*entitlement), ent_na(*entitlement)) ==> r@.len() == 0'''),
                  ]),
        U.fn(KEYS, 'KeyState', 'knows_key', ensures=[('every_key_of_the_roll_is_our_own', 'r == own_key(*self, key_id)')]),
        U.fn(KEYS, 'KeyState', 'new_key', ensures=[('iff_roll_new', 'r is Some <==> phase(*self) is RollNew'), ('is_new', 'r is Some ==> *r->Some_0 == self->RollNew_0')]),
        U.fn(KEYS, 'KeyState', 'create_issuance_req', external_body=True),
        U.fn(KEYS, 'KeyState', 'revoke_key'),
        U.fn(KEYS, 'KeyState', 'apply_issuance_request', ensures=[('phase_kept', 'phase(*final(self)) == phase(*old(self))')]),
    ])
    return U
