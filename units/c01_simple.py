"""C01: ROA derivation outside aggregation mode and the mode dispatch: update_simple issues a ROA for every configured
authorisation that has none and withdraws every ROA whose authorisation is no longer configured (or no longer held: the
routes handed in are the ones filtered by the certificate's resources); switching mode withdraws every object of the other
kind; create_updates filters by the CURRENT certificate and dispatches on Roas::mode."""
from vxlib import Unit, LostAnchor, find
from units import prelude

ROA = 'src/server/ca/roa.rs'
API = 'src/api/roa.rs'

SPEC = r'''
pub assume_specification [IssuanceTimingConfig::new_roa_validity] (t: &IssuanceTimingConfig) -> (r: Validity);
pub assume_specification [Roas::make_roa] (a: &[RoaPayloadJsonMapKey], n: &ObjectName, k: &CertifiedKey, v: Validity, s: &KrillSigner) -> (r: KrillResult<Roa>);
pub assume_specification [RoaInfo::new] (a: Vec<RoaPayloadJsonMapKey>, r: Roa) -> (i: RoaInfo) ensures i.authorizations@ == a@;
pub assume_specification [<ObjectName as From<RoaPayloadJsonMapKey>>::from] (k: RoaPayloadJsonMapKey) -> (r: ObjectName);
/// the routes that fall inside a resource set (Routes::filter: flat_map over the map; ASSUMED)
pub uninterp spec fn filtered(r: Routes, res: ResourceSet) -> Routes;
#[verifier::external_type_specification] #[verifier::external_body] pub struct ExRoaPayload(RoaPayload);
#[verifier::external_type_specification] #[verifier::external_body] pub struct ExRoaIpAddress(RoaIpAddress);
/// the certificate's resources hold the prefix of an authorisation (rpki-rs ResourceSet::contains_roa_address of its address), uninterpreted
pub uninterp spec fn holds_prefix_of(res: ResourceSet, a: RoaPayloadJsonMapKey) -> bool;
pub uninterp spec fn payload_of(a: RoaPayloadJsonMapKey) -> RoaPayload;
pub uninterp spec fn address_of(p: RoaPayload) -> RoaIpAddress;
pub assume_specification [<RoaPayloadJsonMapKey as AsRef<RoaPayload>>::as_ref] (a: &RoaPayloadJsonMapKey) -> (r: &RoaPayload) ensures *r == payload_of(*a);
pub assume_specification [RoaPayload::as_roa_ip_address] (p: &RoaPayload) -> (r: RoaIpAddress) ensures r == address_of(*p);
pub assume_specification [ResourceSet::contains_roa_address] (res: &ResourceSet, a: &RoaIpAddress) -> (r: bool)
    ensures forall |k: RoaPayloadJsonMapKey| *a == address_of(payload_of(k)) ==> r == #[trigger] holds_prefix_of(*res, k);
pub uninterp spec fn key_resources(k: CertifiedKey) -> ResourceSet;
#[verifier::external_type_specification] pub struct ExReceivedCert(ReceivedCert);
pub assume_specification [CertifiedKey::incoming_cert] (k: &CertifiedKey) -> (r: &ReceivedCert) ensures r.resources == key_resources(*k);
/// Roas::mode as a function (its table is proved in unit c01_roamode)
pub uninterp spec fn mode_of(s: Roas, total: usize, d: usize, a: usize) -> RoaMode;
/// update_aggregate: contract proved in unit c01_aggregate, ASSUMED here
pub uninterp spec fn agg_post(s: Roas, routes: Routes, upd: Map<RoaAggregateKey, RoaInfo>, rem: Seq<RoaAggregateKey>) -> bool;
/// simple-mode post-state of the update set w.r.t. the configured (relevant) routes
pub open spec fn simple_post(s: Roas, routes: Routes, u: RoaUpdates) -> bool {
    &&& forall |a: RoaPayloadJsonMapKey| #[trigger] routes.map@.contains_key(a) ==> (s.simple@.contains_key(a) || (u.updated@.contains_key(a) && u.updated@[a].authorizations@ == seq![a]))
    &&& forall |a: RoaPayloadJsonMapKey| #[trigger] u.updated@.contains_key(a) ==> routes.map@.contains_key(a) && !s.simple@.contains_key(a)
    &&& forall |a: RoaPayloadJsonMapKey| s.simple@.contains_key(a) && !routes.map@.contains_key(a) ==> #[trigger] u.removed@.contains(a)
    &&& forall |i: int| 0 <= i < u.removed@.len() ==> s.simple@.contains_key(#[trigger] u.removed@[i]) && !routes.map@.contains_key(u.removed@[i])
}
'''


def build():
    U = Unit('c01_simple', 'C01', 'simple-mode ROA derivation, mode switches withdraw the other kind, create_updates filters by the current certificate and dispatches on mode')
    prelude.hashmap(U)
    prelude.strings(U)
    # the accessor that R3 inlines below must still be what it is assumed to be
    src, e = find(ROA, 'fn', impl='Routes', fn='roa_payload_keys')
    body = ' '.join(src[e['body'][0]:e['body'][1]].decode().split())
    if body != '{ self.map.keys().copied() }':
        raise LostAnchor(f'Routes::roa_payload_keys is no longer `self.map.keys().copied()`: {body}')
    U.opaque('AsNumber', 'Clone, Copy, PartialEq, Eq, Hash')
    U.opaque('RoaPayloadJsonMapKey', 'Clone, Copy, PartialEq, Eq, Hash', eq=True, clone_spec=True)
    for t in ['Serial', 'Base64', 'Hash', 'RouteInfo']:
        U.opaque(t, 'Clone')
    U.opaque('Validity', 'Clone, Copy')
    U.opaque('Rsync', 'Clone', module='uri')
    for t in ['CertifiedKey', 'IssuanceTimingConfig', 'KrillSigner', 'Error', 'ObjectName', 'Roa', 'ResourceSet']:
        U.opaque(t, '')
    U.outside('''
pub type KrillResult<T> = Result<T, Error>;
impl IssuanceTimingConfig { pub fn new_roa_validity(&self) -> Validity { unimplemented!() } }
impl Roas { pub fn make_roa(_a: &[RoaPayloadJsonMapKey], _n: &ObjectName, _k: &CertifiedKey, _v: Validity, _s: &KrillSigner) -> KrillResult<Roa> { unimplemented!() } }
impl RoaInfo { pub fn new(_a: Vec<RoaPayloadJsonMapKey>, _r: Roa) -> Self { unimplemented!() } }
impl From<RoaPayloadJsonMapKey> for ObjectName { fn from(_k: RoaPayloadJsonMapKey) -> Self { unimplemented!() } }
impl CertifiedKey { pub fn incoming_cert(&self) -> &ReceivedCert { unimplemented!() } }
pub struct RoaPayload(pub u8);
pub struct RoaIpAddress(pub u8);
impl AsRef<RoaPayload> for RoaPayloadJsonMapKey { fn as_ref(&self) -> &RoaPayload { unimplemented!() } }
impl RoaPayload { pub fn as_roa_ip_address(&self) -> RoaIpAddress { unimplemented!() } }
impl ResourceSet { pub fn contains_roa_address(&self, _a: &RoaIpAddress) -> bool { unimplemented!() } }
/// stub: only the field create_updates reads
pub struct ReceivedCert { pub resources: ResourceSet }
''')
    U.struct(ROA, 'RoaAggregateKey', derive=['Clone', 'Copy', 'PartialEq', 'Eq', 'Hash'], structural=False)
    U.struct(API, 'RoaInfo', derive=['Clone'])
    U.struct(ROA, 'Routes', derive=[])
    U.struct(ROA, 'Roas', derive=[])
    U.enum(ROA, 'RoaMode', derive=[])
    U.struct(ROA, 'RoaUpdates', derive=[], default_ensures=[
        ('empty', 'r.updated@.len() == 0 && r.removed@.len() == 0 && r.aggregate_updated@.len() == 0 && r.aggregate_removed@.len() == 0')])
    # stub: only the fields create_updates reads (Config has ~60 fields that play no role here)
    U.add('pub struct Config { pub issuance_timing: IssuanceTimingConfig, pub roa_deaggregate_threshold: usize, pub roa_aggregate_threshold: usize }')
    U.add(SPEC)
    km = 'obeys_key_model::<RoaAggregateKey>() && obeys_key_model::<RoaPayloadJsonMapKey>()'
    U.impl('impl Routes', [
        U.fn(ROA, 'Routes', 'has', requires=[('km', km)], ensures=[('lookup', 'r == self.map@.contains_key(*auth)')]),
        U.fn(ROA, 'Routes', 'len', requires=[('km', km)], ensures=[('is_len', 'r == self.map@.len()')]),
        # the flat_map closure of Routes::filter (body lifted verbatim, R15): an entry is kept, unchanged, exactly when the resources
        # hold the prefix of its authorisation; the iterator chain around it is not verified (the set-level contract below is ASSUMED)
        U.closure_fn(ROA, 'Routes', 'filter', 0, 'vx_filter_entry',
                     '(auth: &RoaPayloadJsonMapKey, info: &RouteInfo, resources: &ResourceSet) -> (r: Option<(RoaPayloadJsonMapKey, RouteInfo)>)',
                     ensures=[('kept_iff_prefix_held', '(r is Some) <==> holds_prefix_of(*resources, *auth)'),
                              ('kept_unchanged', 'r is Some ==> r->Some_0.0 == *auth && r->Some_0.1 == *info')]),
        U.fn(ROA, 'Routes', 'filter', external_body=True, ensures=[('assumed', 'r == filtered(*self, *resources)')]),
    ])
    keys_inv = lambda m: f'vx_it.seq().unref().to_set() == self.{m}@.dom()'
    U.impl('impl Roas', [
        U.fn(ROA, 'Roas', 'mode', external_body=True, ensures=[('assumed', 'r == mode_of(*self, total, de_aggregation_threshold, aggregation_threshold)')]),     # table verified in unit c01_roamode
        U.fn(ROA, 'Roas', 'update_aggregate', external_body=True, ensures=[('assumed', 'r is Ok ==> agg_post(*self, *relevant_routes, r->Ok_0.aggregate_updated@, r->Ok_0.aggregate_removed@) && r->Ok_0.removed@.len() == 0')]),
        U.fn(ROA, 'Roas', 'update_simple', requires=[('km', km)],
             subst=[('relevant_routes.roa_payload_keys()', 'relevant_routes.map.keys()', 'R3')], deref_loops=(0,),
             ensures=[('issues_missing_withdraws_surplus', 'r is Ok ==> simple_post(*self, *relevant_routes, r->Ok_0)'),
                      ('aggregates_untouched', 'r is Ok ==> r->Ok_0.aggregate_updated@.len() == 0 && r->Ok_0.aggregate_removed@.len() == 0')],
             loops={
                 0: {'iter': 'vx_it', 'invariant': [
                     ('km', km),
                     ('keys', 'vx_it.seq().unref().to_set() == relevant_routes.map@.dom()'),
                     ('issued_or_to_come', '''forall |a: RoaPayloadJsonMapKey| #[trigger] relevant_routes.map@.contains_key(a) ==> self.simple@.contains_key(a)
                            || (roa_updates.updated@.contains_key(a) && roa_updates.updated@[a].authorizations@ == seq![a])
                            || (exists |j: int| vx_it.index@ <= j < vx_it.seq().len() && #[trigger] vx_it.seq().unref()[j] == a)'''),
                     ('only_missing', 'forall |a: RoaPayloadJsonMapKey| #[trigger] roa_updates.updated@.contains_key(a) ==> relevant_routes.map@.contains_key(a) && !self.simple@.contains_key(a)'),
                     ('rest', 'roa_updates.removed@.len() == 0 && roa_updates.aggregate_updated@.len() == 0 && roa_updates.aggregate_removed@.len() == 0'),
                 ]},
                 1: {'iter': 'vx_it', 'invariant': [
                     ('km', km),
                     ('keys', keys_inv('simple')),
                     ('removed_or_to_come', '''forall |a: RoaPayloadJsonMapKey| #[trigger] self.simple@.contains_key(a) && !relevant_routes.map@.contains_key(a) ==> roa_updates.removed@.contains(a)
                            || (exists |j: int| vx_it.index@ <= j < vx_it.seq().len() && #[trigger] vx_it.seq().unref()[j] == a)'''),
                     ('only_surplus', 'forall |i: int| 0 <= i < roa_updates.removed@.len() ==> self.simple@.contains_key(#[trigger] roa_updates.removed@[i]) && !relevant_routes.map@.contains_key(roa_updates.removed@[i])'),
                     ('issued_done', '''(forall |a: RoaPayloadJsonMapKey| #[trigger] relevant_routes.map@.contains_key(a) ==> (self.simple@.contains_key(a) || (roa_updates.updated@.contains_key(a) && roa_updates.updated@[a].authorizations@ == seq![a])))
                            && (forall |a: RoaPayloadJsonMapKey| #[trigger] roa_updates.updated@.contains_key(a) ==> relevant_routes.map@.contains_key(a) && !self.simple@.contains_key(a))'''),
                     ('rest', 'roa_updates.aggregate_updated@.len() == 0 && roa_updates.aggregate_removed@.len() == 0'),
                 ]},
             },
             ghost=[
                 (('loop_start', 0), '''let ghost g_u = roa_updates.updated@; let ghost g_i = vx_it.index@ as int;
            proof { assert(auth == vx_it.seq().unref()[g_i]); assert(vx_it.seq().unref().to_set().contains(auth)); }'''),
                 (('loop_end', 0), '''proof {
                assert forall |a: RoaPayloadJsonMapKey| #[trigger] relevant_routes.map@.contains_key(a) implies self.simple@.contains_key(a)
                        || (roa_updates.updated@.contains_key(a) && roa_updates.updated@[a].authorizations@ == seq![a])
                        || (exists |j: int| g_i + 1 <= j < vx_it.seq().len() && #[trigger] vx_it.seq().unref()[j] == a) by {
                    if a == auth { /*@configured_authorisation_gets_a_roa*/ assert(self.simple@.contains_key(a) || roa_updates.updated@.contains_key(a)); }
                    else if !self.simple@.contains_key(a) && !g_u.contains_key(a) {
                        let j = choose |j: int| g_i <= j < vx_it.seq().len() && #[trigger] vx_it.seq().unref()[j] == a; assert(j != g_i);
                    }
                }
            }'''),
                 (('loop_start', 1), '''let ghost g_rem = roa_updates.removed@; let ghost g_i = vx_it.index@ as int;
            proof { assert(*auth == vx_it.seq().unref()[g_i]); assert(vx_it.seq().unref().to_set().contains(*auth)); }'''),
                 (('loop_end', 1), '''proof {
                assert forall |a: RoaPayloadJsonMapKey| #[trigger] self.simple@.contains_key(a) && !relevant_routes.map@.contains_key(a) implies roa_updates.removed@.contains(a)
                        || (exists |j: int| g_i + 1 <= j < vx_it.seq().len() && #[trigger] vx_it.seq().unref()[j] == a) by {
                    if a == *auth { /*@surplus_roa_is_withdrawn*/ assert(roa_updates.removed@[g_rem.len() as int] == a); }
                    else if g_rem.contains(a) { let w = choose |w: int| 0 <= w < g_rem.len() && g_rem[w] == a; assert(roa_updates.removed@[w] == a); }
                    else { let j = choose |j: int| g_i <= j < vx_it.seq().len() && #[trigger] vx_it.seq().unref()[j] == a; assert(j != g_i); }
                }
                assert forall |i: int| 0 <= i < roa_updates.removed@.len() implies self.simple@.contains_key(#[trigger] roa_updates.removed@[i]) && !relevant_routes.map@.contains_key(roa_updates.removed@[i]) by {
                    if i < g_rem.len() { assert(roa_updates.removed@[i] == g_rem[i]); }
                }
            }'''),
             ]),
        U.fn(ROA, 'Roas', 'update_stop_aggregating', requires=[('km', km)],
             ensures=[('simple_roas_as_configured', 'r is Ok ==> simple_post(*self, *relevant_routes, r->Ok_0)'),
                      ('every_aggregated_roa_withdrawn', 'r is Ok ==> forall |k: RoaAggregateKey| self.aggregate@.contains_key(k) ==> #[trigger] r->Ok_0.aggregate_removed@.contains(k)')],
             loops={0: {'iter': 'vx_it', 'invariant': [
                 ('km', km), ('keys', keys_inv('aggregate')),
                 ('simple_kept', 'simple_post(*self, *relevant_routes, roa_updates)'),
                 ('removed_or_to_come', '''forall |k: RoaAggregateKey| #[trigger] self.aggregate@.contains_key(k) ==> roa_updates.aggregate_removed@.contains(k)
                        || (exists |j: int| vx_it.index@ <= j < vx_it.seq().len() && #[trigger] vx_it.seq().unref()[j] == k)'''),
             ]}},
             ghost=[
                 (('loop_start', 0), '''let ghost g_rem = roa_updates.aggregate_removed@; let ghost g_i = vx_it.index@ as int;
            proof { assert(*roa_key == vx_it.seq().unref()[g_i]); }'''),
                 (('loop_end', 0), '''proof {
                assert forall |k: RoaAggregateKey| #[trigger] self.aggregate@.contains_key(k) implies roa_updates.aggregate_removed@.contains(k)
                        || (exists |j: int| g_i + 1 <= j < vx_it.seq().len() && #[trigger] vx_it.seq().unref()[j] == k) by {
                    if k == *roa_key { assert(roa_updates.aggregate_removed@[g_rem.len() as int] == k); }
                    else if g_rem.contains(k) { let w = choose |w: int| 0 <= w < g_rem.len() && g_rem[w] == k; assert(roa_updates.aggregate_removed@[w] == k); }
                    else { let j = choose |j: int| g_i <= j < vx_it.seq().len() && #[trigger] vx_it.seq().unref()[j] == k; assert(j != g_i); }
                }
            }'''),
             ]),
        U.fn(ROA, 'Roas', 'update_start_aggregating', requires=[('km', km)],
             ensures=[('aggregates_as_configured', 'r is Ok ==> agg_post(*self, *relevant_routes, r->Ok_0.aggregate_updated@, r->Ok_0.aggregate_removed@)'),
                      ('every_simple_roa_withdrawn', 'r is Ok ==> forall |a: RoaPayloadJsonMapKey| self.simple@.contains_key(a) ==> #[trigger] r->Ok_0.removed@.contains(a)')],
             loops={0: {'iter': 'vx_it', 'invariant': [
                 ('km', km), ('keys', keys_inv('simple')),
                 ('removed_or_to_come', '''forall |a: RoaPayloadJsonMapKey| #[trigger] self.simple@.contains_key(a) ==> roa_updates.removed@.contains(a)
                        || (exists |j: int| vx_it.index@ <= j < vx_it.seq().len() && #[trigger] vx_it.seq().unref()[j] == a)'''),
                 ('agg_kept', 'roa_updates.updated@ == g_upd0 && roa_updates.aggregate_updated@ == g_agg0 && roa_updates.aggregate_removed@ == g_aggr0'),
             ]}},
             ghost=[
                 (('before_loop', 0), 'let ghost g_upd0 = roa_updates.updated@; let ghost g_agg0 = roa_updates.aggregate_updated@; let ghost g_aggr0 = roa_updates.aggregate_removed@; let ghost g_all0 = roa_updates;'),
                 (('loop_start', 0), '''let ghost g_rem = roa_updates.removed@; let ghost g_i = vx_it.index@ as int;
            proof { assert(*roa_key == vx_it.seq().unref()[g_i]); }'''),
                 (('loop_end', 0), '''proof {
                assert forall |a: RoaPayloadJsonMapKey| #[trigger] self.simple@.contains_key(a) implies roa_updates.removed@.contains(a)
                        || (exists |j: int| g_i + 1 <= j < vx_it.seq().len() && #[trigger] vx_it.seq().unref()[j] == a) by {
                    if a == *roa_key { assert(roa_updates.removed@[g_rem.len() as int] == a); }
                    else if g_rem.contains(a) { let w = choose |w: int| 0 <= w < g_rem.len() && g_rem[w] == a; assert(roa_updates.removed@[w] == a); }
                    else { let j = choose |j: int| g_i <= j < vx_it.seq().len() && #[trigger] vx_it.seq().unref()[j] == a; assert(j != g_i); }
                }
            }'''),
             ]),
        U.fn(ROA, 'Roas', 'create_updates', requires=[('km', km)],
             ensures=[('objects_follow_the_routes_held_by_the_current_certificate', '''r is Ok ==> ({
                    let rel = filtered(*@ARG1@, key_resources(*@ARG2@));
                    match mode_of(*self, rel.map@.len() as usize, @ARG3@.roa_deaggregate_threshold, @ARG3@.roa_aggregate_threshold) {
                        RoaMode::Simple => simple_post(*self, rel, r->Ok_0) && r->Ok_0.aggregate_updated@.len() == 0 && r->Ok_0.aggregate_removed@.len() == 0,
                        RoaMode::StopAggregating => simple_post(*self, rel, r->Ok_0)
                            && (forall |k: RoaAggregateKey| self.aggregate@.contains_key(k) ==> #[trigger] r->Ok_0.aggregate_removed@.contains(k)),
                        RoaMode::StartAggregating => agg_post(*self, rel, r->Ok_0.aggregate_updated@, r->Ok_0.aggregate_removed@)
                            && (forall |a: RoaPayloadJsonMapKey| self.simple@.contains_key(a) ==> #[trigger] r->Ok_0.removed@.contains(a)),
                        RoaMode::Aggregate => agg_post(*self, rel, r->Ok_0.aggregate_updated@, r->Ok_0.aggregate_removed@),
                    } })''')]),
    ])
    return U
