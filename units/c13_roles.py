"""C13 (evaluation core): Role::is_allowed -- a per-CA grant takes precedence over the blanket grant; non-CA requests use the
general grant.  AuthInfo::check_permission / Request::check_permission pass exactly that verdict on."""
from vxlib import Unit
from units import prelude

ROLES = 'src/daemon/http/auth/roles.rs'
AUTHZ = 'src/daemon/http/auth/authorizer.rs'

SPEC = r'''
pub uninterp spec fn ps_has(s: PermissionSet, p: Permission) -> bool;
pub assume_specification [PermissionSet::has] (s: PermissionSet, p: Permission) -> (r: bool) ensures r == ps_has(s, p);
/// the statement: per-CA grant takes precedence over the blanket grant, non-CA requests use the general grant
pub open spec fn role_allows(r: Role, p: Permission, res: Option<MyHandle>) -> bool {
    match res {
        Some(h) => if r.resources@.contains_key(h) { ps_has(r.resources@[h], p) } else { ps_has(r.any, p) },
        None => ps_has(r.none, p),
    }
}
pub open spec fn opt_handle(res: Option<&MyHandle>) -> Option<MyHandle> { match res { Some(h) => Some(*h), None => None } }
'''


def build():
    U = Unit('c13_roles', 'C13', 'Role::is_allowed: per-CA grant beats blanket grant; non-CA requests use the general grant')
    prelude.hashmap(U)
    U.opaque('MyHandle', 'Clone, PartialEq, Eq, Hash')
    U.opaque('PermissionSet', 'Clone, Copy')
    U.opaque('Permission', 'Clone, Copy')
    U.outside('impl PermissionSet { pub fn has(self, _p: Permission) -> bool { unimplemented!() } }')
    U.struct(ROLES, 'Role', derive=[])
    U.opaque('Actor', '')
    U.opaque('ApiAuthError', 'Clone')
    U.outside('''use std::sync::Arc;
impl ApiAuthError { pub fn insufficient_rights(_a: &Actor, _p: Permission, _r: Option<&MyHandle>) -> Self { unimplemented!() } }''')
    U.struct(AUTHZ, 'AuthInfo', derive=[])
    U.add(SPEC)
    prelude.option_helpers(U)
    U.impl('impl Role', [
        U.fn(ROLES, 'Role', 'is_allowed', requires=[('km', 'obeys_key_model::<MyHandle>()')],
             ensures=[('is_statement', 'r == role_allows(*self, permission, opt_handle(resource))')]),
        U.fn(ROLES, 'Role', 'complex', ensures=[('fields', 'r.none == none, r.any == any, r.resources == resources')]),
    ])
    U.add('pub assume_specification [ApiAuthError::insufficient_rights] (a: &Actor, p: Permission, r: Option<&MyHandle>) -> (e: ApiAuthError);')
    U.impl('impl AuthInfo', [
        U.fn(AUTHZ, 'AuthInfo', 'check_permission', requires=[('km', 'obeys_key_model::<MyHandle>()')], ensures=[
            ('granted_exactly_when', '(r is Ok) <==> (self.permissions is Ok && role_allows(*self.permissions->Ok_0, permission, opt_handle(resource)))'),
            ('auth_error_passed_on', 'self.permissions is Err ==> r == Err::<(), ApiAuthError>(self.permissions->Err_0)')]),
        U.fn(AUTHZ, 'AuthInfo', 'has_permission', requires=[('km', 'obeys_key_model::<MyHandle>()')], ensures=[
            ('is_check', 'r == (self.permissions is Ok && role_allows(*self.permissions->Ok_0, permission, opt_handle(resource)))')]),
    ])
    # ---- the bridge the handlers rely on (assumed in the handler units, verified here): a request only becomes an
    #      AuthedRequest through proceed_permitted after exactly this check, or through proceed_unchecked with the auth info
    #      handed on unchanged ----
    REQ = 'src/daemon/http/request.rs'
    for t in ['HyperRequest', 'HttpServer', 'BodyLimits', 'HttpResponse', 'Error']:
        U.opaque(t, '')
    U.outside('''
impl HttpResponse { pub fn response_from_error(_e: Error) -> Self { unimplemented!() } }
impl From<ApiAuthError> for Error { fn from(_e: ApiAuthError) -> Self { unimplemented!() } }
''')
    U.add('''pub assume_specification [HttpResponse::response_from_error] (e: Error) -> (r: HttpResponse);
pub assume_specification [<Error as From<ApiAuthError>>::from] (e: ApiAuthError) -> (r: Error);
pub open spec fn auth_allows(a: AuthInfo, p: Permission, res: Option<MyHandle>) -> bool { a.permissions is Ok && role_allows(*a.permissions->Ok_0, p, res) }''')
    U.struct(REQ, 'Request', derive=[])
    U.struct(REQ, 'AuthedRequest', derive=[])
    U.impl("impl<'a> Request<'a>", [
        U.fn(REQ, 'Request', 'check_permission', requires=[('km', 'obeys_key_model::<MyHandle>()')],
             closures={0: {'header': '|err: ApiAuthError| -> (o: HttpResponse)', 'ensures': 'true'}},
             ensures=[('granted_exactly_when', '(r is Ok) <==> auth_allows(self.auth, permission, opt_handle(resource))')]),
        U.fn(REQ, 'Request', 'proceed_permitted', requires=[('km', 'obeys_key_model::<MyHandle>()')], ensures=[
            ('only_after_the_check', '(r is Ok) <==> auth_allows(self.auth, permission, opt_handle(resource))'),
            ('same_request_server_and_identity', 'r is Ok ==> r->Ok_0.0.server == self.server && r->Ok_0.0.request == self.request && r->Ok_0.1 == self.auth')]),
        U.fn(REQ, 'Request', 'proceed_unchecked', ensures=[
            ('identity_handed_on_unchanged', 'r.0.server == self.server && r.0.request == self.request && r.1 == self.auth')]),
    ])
    return U
