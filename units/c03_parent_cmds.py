"""C03 / C06: the CertAuth command functions that give up resource classes, on the real text.
process_remove_parent: refused exactly for an unknown parent; otherwise EVERY resource class held under that parent -- and no class
of another parent -- is removed by its own ResourceClassRemoved event (from which the pre-save listeners withdraw its objects and
queue the revocation task, units c04_listener / c09_events), and ParentRemoved comes last (so that every earlier event still names
a parent and classes the CA knows when the history is replayed).
process_drop_resource_class: the named class, under the parent it is held from, with the revocation requests for ITS keys; an
unknown class is refused.
process_update_received_cert: the certificate goes to the named class together with the configuration the CA has stored (from
which the class re-derives its objects, unit c02_rcvd); an unknown class is refused."""
from vxlib import Unit
from units import prelude
from units.c05_child import common

CA = 'src/server/ca/certauth.rs'
EV = 'src/server/ca/events.rs'
ERR = 'src/commons/error.rs'

SPEC = r'''
pub uninterp spec fn rc_parent(rc: ResourceClass) -> ParentHandle;
/// ResourceClass::revoke: the revocation requests for the keys of the class (None: signing failed)
pub uninterp spec fn rc_revoke(rc: ResourceClass) -> Option<Seq<RevocationRequest>>;
/// ResourceClass::process_received_cert (units c04_keystate / c02_rcvd), as a function of what it is handed
pub uninterp spec fn rc_rcvd(rc: ResourceClass, h: CaHandle, c: ReceivedCert, routes: Routes, aspas: AspaDefinitions, bgpsec: BgpSecDefinitions) -> KrillResult<Vec<CertAuthEvent>>;
impl ResourceClass {
    #[verifier::external_body] pub fn parent_handle(&self) -> (r: &ParentHandle) ensures *r == rc_parent(*self) { unimplemented!() }
    #[verifier::external_body] pub fn revoke(&self, signer: &KrillSigner) -> (r: KrillResult<Vec<RevocationRequest>>)
        ensures match r { Ok(v) => rc_revoke(*self) == Some(v@), Err(_) => rc_revoke(*self) is None } { unimplemented!() }
    #[verifier::external_body] pub fn process_received_cert(&self, handle: &CaHandle, rcvd_cert: ReceivedCert, routes: &Routes, aspas: &AspaDefinitions,
            bgpsec: &BgpSecDefinitions, config: &Config, signer: &KrillSigner) -> (r: KrillResult<Vec<CertAuthEvent>>)
        ensures r == rc_rcvd(*self, *handle, rcvd_cert, *routes, *aspas, *bgpsec) { unimplemented!() }
}
/// ASSUMED: `==` on parent handles is value equality
impl vstd::std_specs::cmp::PartialEqSpecImpl for ParentHandle {
    open spec fn obeys_eq_spec() -> bool { true }
    open spec fn eq_spec(&self, other: &ParentHandle) -> bool { *self == *other }
}
pub assume_specification [<ParentHandle as PartialEq>::eq] (a: &ParentHandle, b: &ParentHandle) -> (r: bool);

/// event e removes class n held under parent p (best-effort revocation: no requests ride on the event)
pub open spec fn removes(e: CertAuthEvent, n: ResourceClassName, p: ParentHandle) -> bool {
    match e { CertAuthEvent::ResourceClassRemoved { resource_class_name, parent, revoke_requests } => resource_class_name == n && parent == p && revoke_requests@.len() == 0, _ => false }
}
/// ASSUMED: `==` on parent contacts is value equality (derived PartialEq in krill)
impl vstd::std_specs::cmp::PartialEqSpecImpl for ParentCaContact {
    open spec fn obeys_eq_spec() -> bool { true }
    open spec fn eq_spec(&self, other: &ParentCaContact) -> bool { *self == *other }
}
pub assume_specification [<ParentCaContact as PartialEq>::eq] (a: &ParentCaContact, b: &ParentCaContact) -> (r: bool);
pub open spec fn class_removed(evs: Seq<CertAuthEvent>, n: ResourceClassName, p: ParentHandle) -> bool {
    exists |i: int| 0 <= i < evs.len() && removes(#[trigger] evs[i], n, p)
}
pub open spec fn only_removals_of_this_parents_classes(ca: CertAuth, evs: Seq<CertAuthEvent>, p: ParentHandle) -> bool {
    forall |i: int| 0 <= i < evs.len() ==> (match #[trigger] evs[i] {
        CertAuthEvent::ResourceClassRemoved { resource_class_name, parent, revoke_requests } =>
            ca.resources@.contains_key(resource_class_name) && rc_parent(ca.resources@[resource_class_name]) == p && parent == p && revoke_requests@.len() == 0,
        _ => false })
}
pub proof fn lemma_removed_mono(a: Seq<CertAuthEvent>, e: CertAuthEvent, n: ResourceClassName, p: ParentHandle)
    requires class_removed(a, n, p) ensures class_removed(a.push(e), n, p)
{
    let i = choose |i: int| 0 <= i < a.len() && removes(#[trigger] a[i], n, p);
    assert(a.push(e)[i] == a[i]);
}
'''


def build():
    U = Unit('c03_parent_cmds', 'C03', 'parent removal removes every class held under that parent and no other, ParentRemoved last; a dropped class goes with the revocation requests of its own keys; a received certificate goes to the named class with the stored configuration')
    common(U, skip=('ResourceClass', 'Routes', 'AspaDefinitions', 'BgpSecDefinitions', 'ParentCaContact'))
    U.opaque('ParentCaContact', 'Clone, PartialEq, Eq')
    for t in ['ResourceClass', 'Routes', 'AspaDefinitions', 'BgpSecDefinitions', 'ChildDetails', 'Config', 'KrillSigner', 'ReceivedCert', 'DropReason']:
        U.opaque(t, '')
    U.opaque('RevocationRequest', 'Clone')
    U.struct(CA, 'CertAuth', derive=[])
    U.enum(EV, 'CertAuthEvent', keep=['ResourceClassRemoved', 'ParentRemoved', 'ParentAdded', 'ParentUpdated'], derive=[])
    U.enum(ERR, 'Error', keep=['CaParentUnknown', 'ResourceClassUnknown', 'CaParentDuplicateName', 'CaParentDuplicateInfo'], derive=[])
    U.add(SPEC)
    km = 'obeys_key_model::<ResourceClassName>() && obeys_key_model::<ParentHandle>()'
    pairs = '''vx_it.seq().len() == self.resources@.len() && (forall |i: int| 0 <= i < vx_it.seq().len() ==> self.resources@.contains_key(*(#[trigger] vx_it.seq()[i]).0)
                        && self.resources@[*vx_it.seq()[i].0] == *vx_it.seq()[i].1) && vx_it.seq().no_duplicates()'''
    U.impl('impl CertAuth', [
        U.fn(CA, 'CertAuth', 'handle', ensures=[('own_handle', '*r == self.handle')]),
        U.fn(CA, 'CertAuth', 'has_parent', requires=[('km', km)], ensures=[('iff_known', 'r == self.parents@.contains_key(*parent)')]),
        # a parent is added only under a new name and with contact details no other parent has (two handles for one parent would
        # make the CA request, and publish, everything twice); the contact of a known parent can be replaced, nothing else
        U.fn(CA, 'CertAuth', 'process_add_parent', requires=[('km', km)], hash_loops=(0,), attrs=['#[verifier::loop_isolation(false)]'],
             ensures=[
                 ('accepted_exactly_for_a_new_name_and_new_contact_details', '''(r is Ok) <==> (!self.parents@.contains_key(parent)
                        && forall |p: ParentHandle| #[trigger] self.parents@.contains_key(p) ==> self.parents@[p] != contact)'''),
                 ('recorded_as_given', 'r is Ok ==> r->Ok_0@.len() == 1 && r->Ok_0@[0] == (CertAuthEvent::ParentAdded { parent, contact })'),
             ],
             loops={0: {'iter': 'vx_it', 'invariant': [
                 ('km', km),
                 ('pairs', '''vx_it.seq().len() == self.parents@.len() && (forall |i: int| 0 <= i < vx_it.seq().len() ==> self.parents@.contains_key(*(#[trigger] vx_it.seq()[i]).0)
                        && self.parents@[*vx_it.seq()[i].0] == *vx_it.seq()[i].1) && vx_it.seq().no_duplicates()'''),
                 ('new_name', '!self.parents@.contains_key(g_parent)'),
                 ('a_parent_with_these_details_is_still_to_come', '''forall |p: ParentHandle| #[trigger] self.parents@.contains_key(p) && self.parents@[p] == contact
                        ==> exists |j: int| vx_it.index@ <= j < vx_it.seq().len() && *(#[trigger] vx_it.seq()[j]).0 == p'''),
             ]}},
             ghost=[(('body_start',), 'let ghost g_parent = parent;'),
                    (('loop_start', 0), 'let ghost g_i = vx_it.index@ as int; proof { assert(*parent_info == *vx_it.seq()[g_i].1 && *parent == *vx_it.seq()[g_i].0); }'),
                    (('loop_end', 0), '''proof {
                assert forall |p: ParentHandle| #[trigger] self.parents@.contains_key(p) && self.parents@[p] == contact
                        implies exists |j: int| g_i + 1 <= j < vx_it.seq().len() && *(#[trigger] vx_it.seq()[j]).0 == p by {
                    let j = choose |j: int| g_i <= j < vx_it.seq().len() && *(#[trigger] vx_it.seq()[j]).0 == p;
                    if j == g_i { assert(self.parents@[p] == *vx_it.seq()[g_i].1); }
                }
            }''')]),
        U.fn(CA, 'CertAuth', 'process_update_parent_contact', requires=[('km', km)], ensures=[
            ('accepted_exactly_for_a_known_parent', '(r is Ok) == self.parents@.contains_key(parent)'),
            ('recorded_as_given', 'r is Ok ==> r->Ok_0@.len() == 1 && r->Ok_0@[0] == (CertAuthEvent::ParentUpdated { parent, contact })')]),
        U.fn(CA, 'CertAuth', 'process_remove_parent', requires=[('km', km)], hash_loops=(0,), attrs=['#[verifier::loop_isolation(false)]'],
             ensures=[
                 ('refused_exactly_for_an_unknown_parent', '(r is Ok) == self.parents@.contains_key(parent)'),
                 ('every_class_held_under_the_parent_is_removed', '''r is Ok ==> forall |n: ResourceClassName| #[trigger] self.resources@.contains_key(n) && rc_parent(self.resources@[n]) == parent
                        ==> class_removed(r->Ok_0@.drop_last(), n, parent)'''),
                 ('no_class_of_another_parent_is_touched_and_nothing_else_emitted', 'r is Ok ==> only_removals_of_this_parents_classes(*self, r->Ok_0@.drop_last(), parent)'),
                 ('parent_removed_last', 'r is Ok ==> r->Ok_0@.len() >= 1 && r->Ok_0@.last() == (CertAuthEvent::ParentRemoved { parent })'),
             ],
             loops={0: {'iter': 'vx_it', 'invariant': [
                 ('km', km), ('pairs', pairs),
                 ('only_removals', 'only_removals_of_this_parents_classes(*self, res@, parent)'),
                 ('classes_done_or_to_come', '''forall |n: ResourceClassName| #[trigger] self.resources@.contains_key(n) && rc_parent(self.resources@[n]) == parent ==>
                        class_removed(res@, n, parent) || exists |j: int| vx_it.index@ <= j < vx_it.seq().len() && *(#[trigger] vx_it.seq()[j]).0 == n'''),
             ]}},
             ghost=[
                 (('loop_start', 0), '''let ghost g_res = res@; let ghost g_i = vx_it.index@ as int;
            proof {
                assert(*rcn == *vx_it.seq()[g_i].0 && *rc == *vx_it.seq()[g_i].1);
                assert forall |i: int| 0 <= i < vx_it.seq().len() && i != g_i implies *(#[trigger] vx_it.seq()[i]).0 != *rcn by {
                    let a = vx_it.seq()[i]; let b = vx_it.seq()[g_i];
                    if *a.0 == *b.0 { assert(*a.1 == self.resources@[*a.0]); assert(*b.1 == self.resources@[*b.0]); assert(a == b); }
                }
            }'''),
                 (('loop_end', 0), '''proof {
                if res@.len() > g_res.len() { assert(res@ =~= g_res.push(res@.last())); }
                assert forall |n: ResourceClassName| #[trigger] self.resources@.contains_key(n) && rc_parent(self.resources@[n]) == parent implies
                        class_removed(res@, n, parent) || exists |j: int| g_i + 1 <= j < vx_it.seq().len() && *(#[trigger] vx_it.seq()[j]).0 == n by {
                    if n == *rcn {
                        /*@this_class_is_removed*/ assert(removes(res@.last(), n, parent)); assert(class_removed(res@, n, parent));
                    } else if class_removed(g_res, n, parent) {
                        if res@.len() > g_res.len() { lemma_removed_mono(g_res, res@.last(), n, parent); }
                    } else {
                        let j = choose |j: int| g_i <= j < vx_it.seq().len() && *(#[trigger] vx_it.seq()[j]).0 == n;
                        assert(j != g_i);
                    }
                }
            }'''),
                 (('before', 'Ok(res)'), 'proof { assert(res@.drop_last() =~= g_before_last); }'),
                 (('after_loop', 0), 'let ghost g_before_last = res@;'),
             ]),
        U.fn(CA, 'CertAuth', 'process_drop_resource_class', requires=[('km', km)], closures={
                 '|revoke_requests|': {'header': '|revoke_requests: Vec<RevocationRequest>| -> (v: Vec<CertAuthEvent>)',
                                       'ensures': '''v@.len() == 1 && v@[0] == (CertAuthEvent::ResourceClassRemoved { resource_class_name: rcn, parent: rc_parent(*rc), revoke_requests })'''}},
             ensures=[
                 ('unknown_class_refused', '!self.resources@.contains_key(rcn) ==> r is Err'),
                 ('the_named_class_goes_with_the_requests_for_its_own_keys', '''r is Ok ==> self.resources@.contains_key(rcn) && rc_revoke(self.resources@[rcn]) is Some && r->Ok_0@.len() == 1
                        && (match r->Ok_0@[0] { CertAuthEvent::ResourceClassRemoved { resource_class_name, parent, revoke_requests } =>
                                resource_class_name == rcn && parent == rc_parent(self.resources@[rcn]) && revoke_requests@ == rc_revoke(self.resources@[rcn])->Some_0, _ => false })'''),
             ]),
        U.fn(CA, 'CertAuth', 'process_update_received_cert', requires=[('km', km)], ensures=[
            ('unknown_class_refused', '!self.resources@.contains_key(rcn) ==> r is Err'),
            ('the_named_class_gets_the_certificate_and_the_stored_configuration', '''self.resources@.contains_key(rcn) ==>
                    r == rc_rcvd(self.resources@[rcn], self.handle, rcvd_cert, self.routes, self.aspas, self.bgpsec_defs)'''),
        ]),
    ])
    return U
