"""C09 (task identity): Task::name -- the queue de-duplicates by task name (TaskQueue::schedule replaces a pending task of the
same name, schedule_missing skips a task whose name is present), so a follow-up is only "eventually executed" if two tasks that
stand for different work never share a name.  Verified: the name of every task is built from exactly the parts of the naming
scheme below, and (lemma) the scheme gives equal names only to tasks that are the same work."""
from vxlib import Unit
from units import prelude

MQ = 'src/server/mq.rs'

OUTSIDE = r'''
use std::borrow::Cow;
#[derive(Clone)] pub struct Ident(pub u8);
pub struct IdentBuilder(pub u8);
pub struct CaHandle(pub u8);
pub struct ParentHandle(pub u8);
pub trait VxHandle { }
impl VxHandle for CaHandle {}
impl VxHandle for ParentHandle {}
impl Ident {
    pub const fn make(_s: &'static str) -> &'static Ident { const X: Ident = Ident(0); &X }
    /// stand-in signature: the real one takes `impl Into<Box<Ident>>` and every call site passes a `&'static Ident`
    pub fn builder(_start: &Ident) -> IdentBuilder { unimplemented!() }
}
impl IdentBuilder {
    pub fn push_ident(self, _i: &Ident) -> Self { unimplemented!() }
    pub fn push_handle<H: VxHandle>(self, _h: &H) -> Self { unimplemented!() }
    pub fn push_key_identifier(self, _k: KeyIdentifier) -> Self { unimplemented!() }
    pub fn push_converted_str(self, _s: &str) -> Self { unimplemented!() }
    /// stand-in signature: the real one returns Box<Ident> (Ident is unsized there)
    pub fn finish(self) -> Ident { unimplemented!() }
}
impl AsRef<str> for ResourceClassName { fn as_ref(&self) -> &str { unimplemented!() } }
impl RevocationRequest { pub fn key(&self) -> KeyIdentifier { unimplemented!() } }
'''

SPEC = r'''
#[verifier::external_type_specification] #[verifier::external_body] pub struct ExIdent(Ident);
#[verifier::external_type_specification] #[verifier::external_body] pub struct ExIdentBuilder(IdentBuilder);
#[verifier::external_type_specification] #[verifier::external_body] pub struct ExCaHandle(CaHandle);
#[verifier::external_type_specification] #[verifier::external_body] pub struct ExParentHandle(ParentHandle);
#[verifier::external_trait_specification] pub trait ExVxHandle { type ExternalTraitSpecificationFor: VxHandle; }

/// what an ident was built from (ASSUMED: an ident is determined by its parts, i.e. handles, class names and key identifiers do
/// not contain the literal separators in a way that makes two different part lists concatenate to the same string)
pub enum Part { Lit(Seq<char>), Handle(Seq<char>), Key(KeyIdentifier), Str(Seq<char>) }
pub uninterp spec fn parts(i: Ident) -> Seq<Part>;
pub uninterp spec fn bparts(b: IdentBuilder) -> Seq<Part>;
pub uninterp spec fn handle_str<H>(h: H) -> Seq<char>;
pub uninterp spec fn rcn_str(r: ResourceClassName) -> Seq<char>;
pub uninterp spec fn req_key(r: RevocationRequest) -> KeyIdentifier;
pub assume_specification [Ident::make] (s: &'static str) -> (r: &'static Ident) ensures parts(*r) == seq![Part::Lit(s@)];
pub assume_specification [Ident::builder] (start: &Ident) -> (b: IdentBuilder) ensures bparts(b) == parts(*start);
pub assume_specification [IdentBuilder::push_ident] (b: IdentBuilder, i: &Ident) -> (o: IdentBuilder) ensures bparts(o) == bparts(b) + parts(*i);
pub assume_specification<H: VxHandle> [IdentBuilder::push_handle::<H>] (b: IdentBuilder, h: &H) -> (o: IdentBuilder) ensures bparts(o) == bparts(b).push(Part::Handle(handle_str(*h)));
pub assume_specification [IdentBuilder::push_key_identifier] (b: IdentBuilder, k: KeyIdentifier) -> (o: IdentBuilder) ensures bparts(o) == bparts(b).push(Part::Key(k));
pub assume_specification [IdentBuilder::push_converted_str] (b: IdentBuilder, s: &str) -> (o: IdentBuilder) ensures bparts(o) == bparts(b).push(Part::Str(s@));
pub assume_specification [IdentBuilder::finish] (b: IdentBuilder) -> (o: Ident) ensures parts(o) == bparts(b);
pub assume_specification [<ResourceClassName as AsRef<str>>::as_ref] (r: &ResourceClassName) -> (s: &str) ensures s@ == rcn_str(*r);
pub assume_specification [RevocationRequest::key] (r: &RevocationRequest) -> (k: KeyIdentifier) ensures k == req_key(*r);
pub open spec fn cow_parts(c: Cow<'_, Ident>) -> Seq<Part> { match c { Cow::Borrowed(i) => parts(*i), Cow::Owned(i) => parts(i) } }

// ---- the naming scheme ----
pub open spec fn lit(s: &str) -> Part { Part::Lit(s@) }
pub open spec fn name_parts(t: Task) -> Seq<Part> {
    match t {
        Task::QueueStartTasks => seq![lit("queue_start_tasks")],
        Task::SyncRepo { ca_handle, .. } => seq![lit("sync_repo_"), Part::Handle(handle_str(ca_handle))],
        Task::SyncParent { ca_handle, parent, .. } => seq![lit("sync_"), Part::Handle(handle_str(ca_handle)), lit("_with_parent_"), Part::Handle(handle_str(parent))],
        Task::ResourceClassRemoved { ca_handle, parent, rcn, .. } => seq![lit("resource_class_removed_ca_"), Part::Handle(handle_str(ca_handle)),
                lit("_parent_"), Part::Handle(handle_str(parent)), lit("_rcn_"), Part::Str(rcn_str(rcn))],
        Task::UnexpectedKey { ca_handle, rcn, revocation_request, .. } => seq![lit("unexpected_key_"), Part::Key(req_key(revocation_request)),
                lit("_ca_"), Part::Handle(handle_str(ca_handle)), lit("_rcn_"), Part::Str(rcn_str(rcn))],
        Task::SyncTrustAnchorProxySignerIfPossible => seq![lit("sync_ta_proxy_signer")],
        Task::SuspendChildrenIfNeeded { ca_handle } => seq![lit("suspend_children_if_needed_"), Part::Handle(handle_str(ca_handle))],
        Task::RenewTestbedTa => seq![lit("renew_testbed_ta")],
        Task::RepublishIfNeeded => seq![lit("all_cas_republish_if_needed")],
        Task::RenewObjectsIfNeeded => seq![lit("all_cas_renew_objects_if_needed")],
        Task::UpdateSnapshots => seq![lit("update_stored_snapshots")],
        Task::RrdpUpdateIfNeeded => seq![lit("update_rrdp_if_needed")],
        Task::SweepLoginCache => seq![lit("sweep_login_cache")],
        Task::RefreshAnnouncementsInfo => seq![lit("refresh_bgp_announcements_info")],
    }
}
/// two tasks are the same piece of work: same kind, for the same CA / parent / resource class / key (versions and payload apart)
pub open spec fn same_work(a: Task, b: Task) -> bool {
    match (a, b) {
        (Task::SyncRepo { ca_handle: c1, .. }, Task::SyncRepo { ca_handle: c2, .. }) => handle_str(c1) == handle_str(c2),
        (Task::SyncParent { ca_handle: c1, parent: p1, .. }, Task::SyncParent { ca_handle: c2, parent: p2, .. }) => handle_str(c1) == handle_str(c2) && handle_str(p1) == handle_str(p2),
        (Task::ResourceClassRemoved { ca_handle: c1, parent: p1, rcn: r1, .. }, Task::ResourceClassRemoved { ca_handle: c2, parent: p2, rcn: r2, .. }) =>
            handle_str(c1) == handle_str(c2) && handle_str(p1) == handle_str(p2) && rcn_str(r1) == rcn_str(r2),
        (Task::UnexpectedKey { ca_handle: c1, rcn: r1, revocation_request: q1, .. }, Task::UnexpectedKey { ca_handle: c2, rcn: r2, revocation_request: q2, .. }) =>
            handle_str(c1) == handle_str(c2) && rcn_str(r1) == rcn_str(r2) && req_key(q1) == req_key(q2),
        (Task::SuspendChildrenIfNeeded { ca_handle: c1 }, Task::SuspendChildrenIfNeeded { ca_handle: c2 }) => handle_str(c1) == handle_str(c2),
        (Task::QueueStartTasks, Task::QueueStartTasks) => true,
        (Task::SyncTrustAnchorProxySignerIfPossible, Task::SyncTrustAnchorProxySignerIfPossible) => true,
        (Task::RenewTestbedTa, Task::RenewTestbedTa) => true,
        (Task::RepublishIfNeeded, Task::RepublishIfNeeded) => true,
        (Task::RenewObjectsIfNeeded, Task::RenewObjectsIfNeeded) => true,
        (Task::UpdateSnapshots, Task::UpdateSnapshots) => true,
        (Task::RrdpUpdateIfNeeded, Task::RrdpUpdateIfNeeded) => true,
        (Task::SweepLoginCache, Task::SweepLoginCache) => true,
        (Task::RefreshAnnouncementsInfo, Task::RefreshAnnouncementsInfo) => true,
        _ => false,
    }
}
pub proof fn reveal_literals()
    ensures
        "queue_start_tasks"@.len() == 17 && "queue_start_tasks"@[0] == 'q', "sweep_login_cache"@.len() == 17 && "sweep_login_cache"@[0] == 's',
        "sync_ta_proxy_signer"@.len() == 20, "renew_testbed_ta"@.len() == 16, "all_cas_republish_if_needed"@.len() == 27,
        "all_cas_renew_objects_if_needed"@.len() == 31, "update_stored_snapshots"@.len() == 23, "update_rrdp_if_needed"@.len() == 21,
        "refresh_bgp_announcements_info"@.len() == 30, "sync_repo_"@.len() == 10, "suspend_children_if_needed_"@.len() == 27,
{
    reveal_strlit("queue_start_tasks"); reveal_strlit("sweep_login_cache"); reveal_strlit("sync_ta_proxy_signer"); reveal_strlit("renew_testbed_ta");
    reveal_strlit("all_cas_republish_if_needed"); reveal_strlit("all_cas_renew_objects_if_needed"); reveal_strlit("update_stored_snapshots");
    reveal_strlit("update_rrdp_if_needed"); reveal_strlit("refresh_bgp_announcements_info"); reveal_strlit("sync_repo_"); reveal_strlit("suspend_children_if_needed_");
}
'''

LEMMA = r'''
/// the statement: the queue only ever merges (replaces / skips) tasks that are the same work
pub proof fn lemma_equal_names_only_for_the_same_work(a: Task, b: Task)
    requires name_parts(a) == name_parts(b)
    ensures same_work(a, b)
{
    reveal_literals();
    let pa = name_parts(a); let pb = name_parts(b);
    assert(pa.len() == pb.len());
    assert(pa[0] == pb[0]);
    if pa.len() >= 2 { assert(pa[1] == pb[1]); }
    if pa.len() >= 4 { assert(pa[2] == pb[2]); assert(pa[3] == pb[3]); }
    if pa.len() >= 6 { assert(pa[4] == pb[4]); assert(pa[5] == pb[5]); }
}
'''


TEXT_SPEC = r'''
// ---- the names as the queue sees them: the TEXT the parts are concatenated to (IdentBuilder appends the pieces; no escaping) ----
pub uninterp spec fn key_text(k: KeyIdentifier) -> Seq<char>;
pub open spec fn part_text(p: Part) -> Seq<char> { match p { Part::Lit(s) => s, Part::Handle(s) => s, Part::Str(s) => s, Part::Key(k) => key_text(k) } }
pub open spec fn text(ps: Seq<Part>) -> Seq<char> decreases ps.len() { if ps.len() == 0 { Seq::empty() } else { text(ps.drop_last()) + part_text(ps.last()) } }
'''

# KNOWN FINDING F22: this lemma is FALSE and is expected to fail.  Handles may contain '_' and the literal separators are plain text:
#   sync_ + "a" + _with_parent_ + "b_with_parent_c"  ==  sync_ + "a_with_parent_b" + _with_parent_ + "c"
#   sync_repo_ + "x_with_parent_y"                    ==  sync_ + "repo_x" + _with_parent_ + "y"
# (replayed on the real code: findings/F21_F22_replay_test.diff).  The part-level lemma above holds; the gap is the step from part
# lists to text, which the first version of this unit had ASSUMED ("an ident is determined by its parts").
WITNESS = r'''
/// machine-checked witness for F22: two DIFFERENT part lists of the SyncParent shape (CA "a" with parent "b_with_parent_c", CA
/// "a_with_parent_b" with parent "c") concatenate to the SAME text
pub proof fn lemma_two_sync_parent_names_one_text()
    ensures ({
        let pa = seq![lit("sync_"), Part::Handle("a"@), lit("_with_parent_"), Part::Handle("b_with_parent_c"@)];
        let pb = seq![lit("sync_"), Part::Handle("a_with_parent_b"@), lit("_with_parent_"), Part::Handle("c"@)];
        pa != pb && text(pa) == text(pb) })
{
    let pa = seq![lit("sync_"), Part::Handle("a"@), lit("_with_parent_"), Part::Handle("b_with_parent_c"@)];
    let pb = seq![lit("sync_"), Part::Handle("a_with_parent_b"@), lit("_with_parent_"), Part::Handle("c"@)];
    reveal_strlit("sync_"); reveal_strlit("a"); reveal_strlit("_with_parent_"); reveal_strlit("b_with_parent_c"); reveal_strlit("a_with_parent_b"); reveal_strlit("c");
    reveal_with_fuel(text, 6);
    let e = Seq::<char>::empty();
    assert(pa.drop_last() =~= seq![lit("sync_"), Part::Handle("a"@), lit("_with_parent_")]);
    assert(pa.drop_last().drop_last() =~= seq![lit("sync_"), Part::Handle("a"@)]);
    assert(pa.drop_last().drop_last().drop_last() =~= seq![lit("sync_")]);
    assert(pa.drop_last().drop_last().drop_last().drop_last() =~= Seq::<Part>::empty());
    assert(pb.drop_last() =~= seq![lit("sync_"), Part::Handle("a_with_parent_b"@), lit("_with_parent_")]);
    assert(pb.drop_last().drop_last() =~= seq![lit("sync_"), Part::Handle("a_with_parent_b"@)]);
    assert(pb.drop_last().drop_last().drop_last() =~= seq![lit("sync_")]);
    assert(pb.drop_last().drop_last().drop_last().drop_last() =~= Seq::<Part>::empty());
    assert(text(pa) =~= e + "sync_"@ + "a"@ + "_with_parent_"@ + "b_with_parent_c"@);
    assert(text(pb) =~= e + "sync_"@ + "a_with_parent_b"@ + "_with_parent_"@ + "c"@);
    assert(text(pa) =~= text(pb));
    assert(pa[1] != pb[1]) by { assert("a"@.len() == 1); assert("a_with_parent_b"@.len() == 15); }
}
'''

TEXT_LEMMA = r'''
pub proof fn lemma_equal_name_texts_only_for_the_same_work(a: Task, b: Task)
    requires text(name_parts(a)) == text(name_parts(b))
    ensures same_work(a, b)
{
}
'''


def build():
    U = Unit('c09_taskname', 'C09', 'Task::name follows the naming scheme, and the scheme gives equal names only to tasks that are the same work (the queue de-duplicates by name)')
    prelude.strings(U)
    U.opaque('KeyIdentifier', 'Clone, Copy')
    U.opaque('ResourceClassName', 'Clone')
    U.opaque('RevocationRequest', 'Clone')
    U.outside(OUTSIDE)
    U.enum(MQ, 'Task', derive=[])
    U.add(SPEC)
    U.impl('impl Task', [
        U.fn(MQ, 'Task', 'name', ensures=[('follows_the_naming_scheme', 'cow_parts(r) == name_parts(*self)')]),
    ])
    U.lemma('equal_names_only_for_the_same_work', LEMMA)
    U.add(TEXT_SPEC)
    U.lemma('two_sync_parent_names_one_text', WITNESS)
    U.lemma('equal_name_TEXTS_only_for_the_same_work', TEXT_LEMMA)
    return U
