"""C11 (serials and the delta chain): RrdpServer::apply_rrdp_updated, the whole function verbatim, and apply_session_reset against
the representation invariant "the retained deltas form a contiguous run ending at the current serial" -- serials grow by exactly one
per update, the new delta carries the new serial and all staged changes leave the staging area, a session reset restarts at serial 1
without deltas."""
from vxlib import Unit
from units import prelude

RR = 'src/server/pubd/rrdp.rs'

SPEC = r'''
#[verifier::external_type_specification] #[verifier::external_body] pub struct ExPathBuf(std::path::PathBuf);
// ---- ASSUMED contracts of callees (SnapshotData::apply_delta: unit c11_snapshot; deltas_truncate_size: unit c11_rrdp) ----
pub uninterp spec fn staged_as_delta(s: StagedElements) -> DeltaElements;
pub uninterp spec fn snap_apply(s: SnapshotData, p: PublisherHandle, d: DeltaElements) -> SnapshotData;
pub uninterp spec fn de_append(a: DeltaElements, b: DeltaElements) -> DeltaElements;
pub assume_specification [SnapshotData::apply_delta] (s: &mut SnapshotData, p: &PublisherHandle, d: DeltaElements) ensures *final(s) == snap_apply(*old(s), *p, d);
pub assume_specification [DeltaElements::append] (a: &mut DeltaElements, o: DeltaElements) ensures *final(a) == de_append(*old(a), o);
impl vstd::std_specs::convert::FromSpecImpl<StagedElements> for DeltaElements {
    open spec fn obeys_from_spec() -> bool { true }
    open spec fn from_spec(v: StagedElements) -> DeltaElements { staged_as_delta(v) }
}
pub assume_specification [<DeltaElements as From<StagedElements>>::from] (s: StagedElements) -> (r: DeltaElements) ensures r == staged_as_delta(s);
pub assume_specification [<DeltaElements as Default>::default] () -> (r: DeltaElements);
/// ASSUMED (std): mem::take hands out the old value and leaves T::default() behind
pub assume_specification<T: Default> [core::mem::take::<T>] (dest: &mut T) -> (r: T) ensures r == *old(dest), call_ensures(T::default, (), *final(dest));

/// two snapshots hold the same objects for every publisher (they may differ in the random path component)
pub uninterp spec fn same_content(a: SnapshotData, b: SnapshotData) -> bool;
/// VERIFIED in unit c11_snapshot (same content for every publisher); assumed here
pub assume_specification [SnapshotData::clone_with_new_random] (s: &SnapshotData) -> (r: SnapshotData) ensures same_content(r, *s);
pub assume_specification [RrdpSession::random] () -> (r: RrdpSession);
/// the statement: the retained deltas form a contiguous run ending at the current serial (newest first)
pub open spec fn contiguous(s: RrdpServer) -> bool {
    forall |i: int| 0 <= i < s.deltas@.len() ==> (#[trigger] s.deltas@[i]).serial + i == s.serial
}
'''


def build():
    U = Unit('c11_update', 'C11', 'an update raises the serial by one and puts a delta with that serial in front of a contiguous run; all staged changes leave the staging area; reset restarts at serial 1 without deltas')
    prelude.hashmap(U)
    prelude.strings(U)
    prelude.time(U)
    for t in ['RrdpSession', 'SnapshotData', 'RrdpFileRandom', 'DeltaElements', 'StagedElements']:
        U.opaque(t, 'Clone')
    U.opaque('PublisherHandle', 'Clone, PartialEq, Eq, Hash')
    U.outside('''
use std::collections::VecDeque;
use std::mem;
pub mod uri { pub struct Https(pub u8); }
pub type PathBuf = std::path::PathBuf;
impl SnapshotData { pub fn apply_delta(&mut self, _p: &PublisherHandle, _d: DeltaElements) { unimplemented!() } }
impl DeltaElements { pub fn append(&mut self, _o: DeltaElements) { unimplemented!() } }
impl SnapshotData { pub fn clone_with_new_random(&self) -> SnapshotData { unimplemented!() } }
impl RrdpSession { pub fn random() -> RrdpSession { unimplemented!() } }
impl From<StagedElements> for DeltaElements { fn from(_s: StagedElements) -> Self { unimplemented!() } }
impl Default for DeltaElements { fn default() -> Self { unimplemented!() } }
''')
    U.add('#[verifier::external_type_specification] #[verifier::external_body] pub struct ExHttps(uri::Https);')
    U.struct(RR, 'DeltaData', derive=['Clone'])
    U.struct(RR, 'RrdpSessionReset', derive=[])
    U.struct(RR, 'RrdpUpdated', derive=[])
    U.struct(RR, 'RrdpServer', derive=[])
    U.add(SPEC)
    U.free(U.const('src/constants.rs', None, 'RRDP_FIRST_SERIAL'))
    U.impl('impl DeltaData', [
        U.fn(RR, 'DeltaData', 'new', ensures=[('fields', 'r.serial == serial && r.time == time && r.random == random && r.elements == elements')]),
    ])
    U.impl('impl RrdpServer', [
        U.fn(RR, 'RrdpServer', 'deltas_truncate_size', external_body=True, ensures=[
            ('assumed_keeps_a_prefix', 'final(self).deltas@.len() <= old(self).deltas@.len() && final(self).deltas@ == old(self).deltas@.subrange(0, final(self).deltas@.len() as int)'),
            ('assumed_rest_untouched', '''final(self).serial == old(self).serial && final(self).snapshot == old(self).snapshot && final(self).session == old(self).session
                    && final(self).staged_elements == old(self).staged_elements && final(self).last_update == old(self).last_update''')]),
        U.fn(RR, 'RrdpServer', 'reset_session', ensures=[
            ('new_session_starts_from_exactly_the_published_state', 'same_content(r.snapshot, self.snapshot)')]),
        U.fn(RR, 'RrdpServer', 'apply_session_reset', ensures=[
            ('snapshot_and_session_are_those_of_the_reset', 'final(self).snapshot == reset.snapshot && final(self).session == reset.session'),
            ('staging_area_untouched', 'final(self).staged_elements == old(self).staged_elements'),
            ('restarts_at_serial_one_without_deltas', 'final(self).serial == 1 && final(self).deltas@.len() == 0'),
            ('contiguous_afterwards', 'contiguous(*final(self))')]),
        U.fn(RR, 'RrdpServer', 'apply_rrdp_updated', clone_loops=(0,), attrs=['#[verifier::loop_isolation(false)]'],
             requires=[('km', 'obeys_key_model::<PublisherHandle>()'), ('contiguous_before', 'contiguous(*old(self))'), ('serial_not_exhausted', 'old(self).serial < u64::MAX')],
             ensures=[
                 ('serial_grows_by_one', 'final(self).serial == old(self).serial + 1'),
                 ('session_unchanged', 'final(self).session == old(self).session'),
                 ('contiguous_afterwards', 'contiguous(*final(self))'),
                 ('retained_deltas_are_the_new_one_and_older_ones', '''final(self).deltas@.len() <= old(self).deltas@.len() + 1
                        && forall |i: int| 1 <= i < final(self).deltas@.len() ==> #[trigger] final(self).deltas@[i] == old(self).deltas@[i - 1]'''),
                 ('new_delta_is_for_this_update', 'final(self).deltas@.len() >= 1 ==> final(self).deltas@[0].serial == final(self).serial && final(self).deltas@[0].time == update.time'),
                 ('nothing_left_staged', 'final(self).staged_elements@.len() == 0'),
                 ('last_update_recorded', 'final(self).last_update == update.time'),
             ],
             loops={0: {'iter': 'vx_it', 'invariant': [
                 ('km', 'obeys_key_model::<PublisherHandle>()'),
                 ('frame', 'self.serial == old(self).serial + 1 && self.deltas == old(self).deltas && self.session == old(self).session && self.staged_elements@.len() == 0'),
             ]}}),
    ])
    return U
