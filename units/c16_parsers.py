"""C16 (string parsers, unbounded in the length of the input): the prefix parsers never underflow and only produce prefixes that
satisfy the type invariant the prefix algebra relies on (length within the family's width, host bits zero -- the invariant the Kani
harnesses of k_api_roa assume of their inputs); BgpSecAsnKey::from_str never indexes out of bounds or unwraps None, whatever the
number of '-' separated parts."""
from vxlib import Unit
from units import prelude

ROA = 'src/api/roa.rs'
BGPSEC = 'src/api/bgpsec.rs'

OUTSIDE = r'''
use std::net::{Ipv4Addr, Ipv6Addr};
use std::str::FromStr;
pub fn vx_split_once<'a>(_s: &'a str, _c: char) -> Option<(&'a str, &'a str)> { unimplemented!() }
pub fn vx_split<'a>(_s: &'a str, _c: char) -> Vec<&'a str> { unimplemented!() }
pub fn vx_strip_prefix<'a>(_s: &'a str, _p: &str) -> Option<&'a str> { unimplemented!() }
pub fn vx_u32_from_str_radix(_s: &str, _r: u32) -> Result<u32, std::num::ParseIntError> { unimplemented!() }
pub fn vx_u8_from_str(_s: &str) -> Result<u8, std::num::ParseIntError> { unimplemented!() }
pub fn vx_v4_from_str(_s: &str) -> Result<Ipv4Addr, std::net::AddrParseError> { unimplemented!() }
pub fn vx_v6_from_str(_s: &str) -> Result<Ipv6Addr, std::net::AddrParseError> { unimplemented!() }
pub fn vx_v4_bits(_a: Ipv4Addr) -> u32 { unimplemented!() }
pub fn vx_v6_bits(_a: Ipv6Addr) -> u128 { unimplemented!() }
pub fn vx_tz32(_x: u32) -> u32 { unimplemented!() }
pub fn vx_tz128(_x: u128) -> u32 { unimplemented!() }
pub struct KeyIdParseError(pub u8);
impl KeyIdentifier { pub fn from_str(_s: &str) -> Result<KeyIdentifier, KeyIdParseError> { unimplemented!() } }
impl Asn { pub fn from_u32(_x: u32) -> Asn { unimplemented!() } }
'''

SPEC = r'''
#[verifier::external_type_specification] #[verifier::external_body] pub struct ExV4(Ipv4Addr);
#[verifier::external_type_specification] #[verifier::external_body] pub struct ExV6(Ipv6Addr);
#[verifier::external_type_specification] #[verifier::external_body] pub struct ExPIE(std::num::ParseIntError);
#[verifier::external_type_specification] #[verifier::external_body] pub struct ExAPE(std::net::AddrParseError);
#[verifier::external_type_specification] #[verifier::external_body] pub struct ExKIPE(KeyIdParseError);
// ---- assumed externals: std string splitting and number parsing return SOME value of their type, nothing more is assumed ----
pub assume_specification<'a> [vx_split_once] (s: &'a str, c: char) -> (r: Option<(&'a str, &'a str)>);
pub assume_specification<'a> [vx_split] (s: &'a str, c: char) -> (r: Vec<&'a str>);
pub assume_specification<'a> [vx_strip_prefix] (s: &'a str, p: &str) -> (r: Option<&'a str>);
pub assume_specification [vx_u32_from_str_radix] (s: &str, r: u32) -> (o: Result<u32, std::num::ParseIntError>);
pub assume_specification [vx_u8_from_str] (s: &str) -> (o: Result<u8, std::num::ParseIntError>);
pub assume_specification [vx_v4_from_str] (s: &str) -> (o: Result<Ipv4Addr, std::net::AddrParseError>);
pub assume_specification [vx_v6_from_str] (s: &str) -> (o: Result<Ipv6Addr, std::net::AddrParseError>);
pub uninterp spec fn v4_bits(a: Ipv4Addr) -> u32;
pub uninterp spec fn v6_bits(a: Ipv6Addr) -> u128;
/// number of trailing zero bits (32 / 128 for zero), uninterpreted: only compared with the host-bit count
pub uninterp spec fn tz32(x: u32) -> u32;
pub uninterp spec fn tz128(x: u128) -> u32;
pub assume_specification [vx_v4_bits] (a: Ipv4Addr) -> (r: u32) ensures r == v4_bits(a);
pub assume_specification [vx_v6_bits] (a: Ipv6Addr) -> (r: u128) ensures r == v6_bits(a);
pub assume_specification [vx_tz32] (x: u32) -> (r: u32) ensures r == tz32(x);
pub assume_specification [vx_tz128] (x: u128) -> (r: u32) ensures r == tz128(x);
pub assume_specification [KeyIdentifier::from_str] (s: &str) -> (r: Result<KeyIdentifier, KeyIdParseError>);
pub assume_specification [Asn::from_u32] (x: u32) -> (r: Asn);
/// the type invariant of the prefix types (what api::roa's algebra and the Kani harnesses of k_api_roa take for granted)
pub open spec fn v4_wf(p: Ipv4Prefix) -> bool { p.addr_len <= 32 && tz32(v4_bits(p.addr)) >= 32 - p.addr_len }
pub open spec fn v6_wf(p: Ipv6Prefix) -> bool { p.addr_len <= 128 && tz128(v6_bits(p.addr)) >= 128 - p.addr_len }
'''


def build():
    U = Unit('c16_parsers', 'C16', 'prefix parsers: no underflow, result satisfies the prefix type invariant; BgpSecAsnKey::from_str: no out-of-bounds / unwrap for any number of parts')
    prelude.strings(U)
    prelude.int_conversions(U)
    U.opaque('KeyIdentifier', 'Clone, Copy')
    U.opaque('Asn', 'Clone, Copy')
    U.outside(OUTSIDE)
    U.struct(ROA, 'Ipv4Prefix', derive=[])
    U.struct(ROA, 'Ipv6Prefix', derive=[])
    U.struct(ROA, 'ParsePrefixError', derive=[])
    U.struct(BGPSEC, 'BgpSecAsnKey', derive=[])
    U.struct(BGPSEC, 'BgpSecAsnKeyFmtError', derive=[])
    U.add(SPEC)
    U.add('''
#[verifier::external_body]
pub broadcast proof fn axiom_u32_from_u8(x: u8)
    ensures <u32 as FromSpec<u8>>::obeys_from_spec(), #[trigger] <u32 as FromSpec<u8>>::from_spec(x) == x as u32 {}
''')
    g = [(('body_start',), 'broadcast use axiom_u32_from_u8;')]
    U.impl('impl Ipv4Prefix', [
        U.fn(ROA, 'Ipv4Prefix', 'from_str', trait='FromStr', as_inherent=True, ghost=g,
             subst=[("s.split_once('/')", "vx_split_once(s, '/')", 'R14'), ('Ipv4Addr::from_str(', 'vx_v4_from_str(', 'R14'),
                    ('u8::from_str(', 'vx_u8_from_str(', 'R14'), ('addr.to_bits().trailing_zeros()', 'vx_tz32(vx_v4_bits(addr))', 'R14'),
                    ('Result<Self, Self::Err>', 'Result<Self, ParsePrefixError>', 'R4')],
             ensures=[('only_well_formed_prefixes', 'r is Ok ==> v4_wf(r->Ok_0)')]),
    ])
    U.impl('impl Ipv6Prefix', [
        U.fn(ROA, 'Ipv6Prefix', 'from_str', trait='FromStr', as_inherent=True, ghost=g,
             subst=[("s.split_once('/')", "vx_split_once(s, '/')", 'R14'), ('Ipv6Addr::from_str(', 'vx_v6_from_str(', 'R14'),
                    ('u8::from_str(', 'vx_u8_from_str(', 'R14'), ('addr.to_bits().trailing_zeros()', 'vx_tz128(vx_v6_bits(addr))', 'R14'),
                    ('Result<Self, Self::Err>', 'Result<Self, ParsePrefixError>', 'R4')],
             ensures=[('only_well_formed_prefixes', 'r is Ok ==> v6_wf(r->Ok_0)')]),
    ])
    U.impl('impl BgpSecAsnKey', [
        U.fn(BGPSEC, 'BgpSecAsnKey', 'from_str', trait='FromStr', as_inherent=True,
             subst=[('s.strip_prefix("ROUTER-")', 'vx_strip_prefix(s, "ROUTER-")', 'R14'), ("s.split('-').collect()", "vx_split(s, '-')", 'R14'),
                    ('u32::from_str_radix(', 'vx_u32_from_str_radix(', 'R14'),
                    ('Result<Self, Self::Err>', 'Result<Self, BgpSecAsnKeyFmtError>', 'R4')],
             ensures=[('never_panics', 'true')]),
    ])
    return U
