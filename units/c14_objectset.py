"""C14: manifest/CRL numbers increase by exactly one per re-issue and agree with each other; a re-issue never changes the set
of payloads; the manifest lists the CRL plus exactly the published objects (C01)."""
from vxlib import Unit
from units import prelude

PUB = 'src/server/ca/publishing.rs'

OUT = '''
pub mod rrdp { pub use super::Hash; }
pub type KrillResult<T> = Result<T, Error>;
pub type ReceivedCert = CertInfoReceived;
pub type PublishedManifest = PublishedItem<PublishedItemManifest>;
pub type PublishedCrl = PublishedItem<PublishedItemCrl>;
pub type PublishedObject = PublishedItem<PublishedItemOther>;
impl Time { pub fn five_minutes_ago() -> Time { unimplemented!() } }
impl IssuanceTimingConfig { pub fn publish_next(&self) -> Time { unimplemented!() } }
impl CertInfoReceived { pub fn key_identifier(&self) -> KeyIdentifier { unimplemented!() } pub fn subject_name(&self) -> Name { unimplemented!() } }
'''

SPEC = r'''
pub assume_specification [Time::five_minutes_ago] () -> (t: Time);
pub assume_specification [IssuanceTimingConfig::publish_next] (c: &IssuanceTimingConfig) -> (t: Time);
// ---- assumed externals: building and signing (rpki-rs + signer) ----
/// the CRL number / manifest number carried by a published CRL / manifest, and what they were built from
pub uninterp spec fn crl_number(c: PublishedCrl) -> u64;
pub uninterp spec fn crl_revocations(c: PublishedCrl) -> Revocations;
pub uninterp spec fn crl_window(c: PublishedCrl) -> (Time, Time);
pub uninterp spec fn mft_number(m: PublishedManifest) -> u64;
pub uninterp spec fn mft_entries(m: PublishedManifest) -> Map<ObjectName, Hash>;
pub uninterp spec fn mft_window(m: PublishedManifest) -> (Time, Time);
impl PublishedItem<PublishedItemCrl> {
    // PublishedCrl::build: TbsCertList::new + signer.sign_crl + From<Crl>; contract ASSUMED
    #[verifier::external_body]
    pub fn build(aki: KeyIdentifier, issuer: Name, revocations: &Revocations, revision: ObjectSetRevision, signer: &KrillSigner) -> (r: KrillResult<Self>)
        ensures r is Ok ==> crl_number(r->Ok_0) == revision.number && crl_revocations(r->Ok_0) == *revocations
            && crl_window(r->Ok_0) == (revision.this_update, revision.next_update)
    { unimplemented!() }
}
pub struct BuiltManifest(pub PublishedManifest);
impl ManifestBuilder {
    // build_new_mft + `.map(|m| m.into())`: ManifestContent::new over an iterator adapter + signer; contract ASSUMED
    #[verifier::external_body]
    pub fn build_new_mft(self, signing_cert: &ReceivedCert, signer: &KrillSigner) -> (r: KrillResult<BuiltManifest>)
        ensures r is Ok ==> mft_number(r->Ok_0.0) == self.revision.number && mft_entries(r->Ok_0.0) == self.entries@
            && mft_window(r->Ok_0.0) == (self.revision.this_update, self.revision.next_update)
    { unimplemented!() }
}
impl vstd::std_specs::convert::FromSpecImpl<BuiltManifest> for PublishedItem<PublishedItemManifest> {
    open spec fn obeys_from_spec() -> bool { true }
    open spec fn from_spec(v: BuiltManifest) -> PublishedManifest { v.0 }
}
impl From<BuiltManifest> for PublishedItem<PublishedItemManifest> { fn from(m: BuiltManifest) -> (r: Self) ensures r == m.0 { m.0 } }
/// opaque model of the revocation list: which (serial, expiry) pairs it carries; `expired` = expired when remove_expired reads the clock
pub uninterp spec fn rev_has(r: Revocations, serial: Serial, expires: Time) -> bool;
pub uninterp spec fn expired(t: Time) -> bool;
impl Revocations {
    // iter().partition(closure): outside engine V; contract ASSUMED (same clauses as in unit c03_keyobjectset)
    #[verifier::external_body] pub fn remove_expired(&mut self) -> (r: Vec<Revocation>)
        ensures forall |s: Serial, t: Time| rev_has(*old(self), s, t) && !expired(t) ==> #[trigger] rev_has(*final(self), s, t),
                forall |s: Serial, t: Time| #[trigger] rev_has(*final(self), s, t) ==> rev_has(*old(self), s, t)
    { unimplemented!() }
}
impl CertInfoReceived {
    #[verifier::external_body] pub fn vx_subject(&self) -> (r: &Name) { unimplemented!() }
}
pub assume_specification [CertInfoReceived::key_identifier] (c: &CertInfoReceived) -> (r: KeyIdentifier);
/// what the manifest of a key must list: its CRL plus exactly the published objects
pub open spec fn expected_entries(crl: PublishedCrl, objs: Map<ObjectName, PublishedObject>) -> Map<ObjectName, Hash> {
    Map::<ObjectName, Hash>::empty().insert(crl.name, crl.hash).union_prefer_right(objs.map_values(|o: PublishedObject| o.hash))
}
'''


def build():
    U = Unit('c14_objectset', 'C14', 're-issue: number + 1, CRL and manifest carry the same number and window, payload set unchanged; manifest = CRL + exactly the published objects')
    prelude.hashmap(U)
    prelude.strings(U)
    U.opaque('ObjectName', 'Clone, PartialEq, Eq, Hash')
    U.opaque('Base64', 'Clone')
    U.opaque('Hash', 'Clone, Copy, PartialEq, Eq')
    U.opaque('Serial', 'Clone, Copy')
    U.opaque('Time', 'Clone, Copy')
    U.opaque('KeyIdentifier', 'Clone, Copy')
    for t in ['Name', 'RepositoryContact', 'Revocations', 'Revocation', 'PublishedItemManifest', 'PublishedItemCrl', 'PublishedItemOther']:
        U.opaque(t, 'Clone')
    for t in ['Error', 'KrillSigner', 'IssuanceTimingConfig']:
        U.opaque(t, '')
    U.outside('#[derive(Clone)] pub struct CertInfoReceived { pub subject: Name }')
    U.add('#[verifier::external_type_specification] pub struct ExCIR(CertInfoReceived);\npub assume_specification [<CertInfoReceived as Clone>::clone] (c: &CertInfoReceived) -> (r: CertInfoReceived) ensures r == *c;')
    U.outside(OUT)
    U.struct(PUB, 'ObjectSetRevision', derive=['Clone', 'Copy'], structural=False)
    U.struct(PUB, 'PublishedItem', derive=['Clone'])
    U.struct(PUB, 'ManifestBuilder', derive=[])
    U.struct(PUB, 'KeyObjectSet', derive=[])
    U.add(SPEC)
    km = 'obeys_key_model::<ObjectName>()'
    U.impl('impl ObjectSetRevision', [
        U.fn(PUB, 'ObjectSetRevision', 'create', ensures=[('starts_at_one', 'r.number == 1 && r.next_update == next_update')]),
        U.fn(PUB, 'ObjectSetRevision', 'next', requires=[('no_overflow', 'mft_number_override is None ==> old(self).number < u64::MAX')], ensures=[
            ('plus_one', 'mft_number_override is None ==> final(self).number == old(self).number + 1'),
            ('override', 'mft_number_override is Some ==> final(self).number == mft_number_override->Some_0'),
            ('next_update_set', 'final(self).next_update == next_update')]),
    ])
    U.impl('impl ManifestBuilder', [
        U.fn(PUB, 'ManifestBuilder', 'new', requires=[('km', km)], ensures=[('empty', 'r.revision == revision && r.entries@ == Map::<ObjectName, Hash>::empty()')]),
        # `mut self` receiver: R22; by-reference HashMap loop: R8
        U.fn(PUB, 'ManifestBuilder', 'with_objects', hash_loops=(0,), attrs=['#[verifier::loop_isolation(false)]'],
             requires=[('km', km), ('fresh_builder', 'self.entries@ == Map::<ObjectName, Hash>::empty()')],
             ensures=[('lists_crl_and_exactly_the_objects', 'r.entries@ =~= expected_entries(*crl, published_objects@)'), ('revision_kept', 'r.revision == self.revision')],
             loops={0: {'iter': 'vx_it', 'invariant': [
                 ('km', km),
                 ('pairs', '''vx_it.seq().len() == published_objects@.len() && (forall |i: int| 0 <= i < vx_it.seq().len() ==> published_objects@.contains_key(*(#[trigger] vx_it.seq()[i]).0)
                        && published_objects@[*vx_it.seq()[i].0] == *vx_it.seq()[i].1) && vx_it.seq().no_duplicates()'''),
                 ('all_listed', 'forall |n: ObjectName| #[trigger] published_objects@.contains_key(n) ==> exists |j: int| 0 <= j < vx_it.seq().len() && *(#[trigger] vx_it.seq()[j]).0 == n'),
                 ('revision', 'vx_self.revision == self.revision'),
                 ('only_crl_and_objects', 'forall |n: ObjectName| #[trigger] vx_self.entries@.contains_key(n) ==> n == crl.name || published_objects@.contains_key(n)'),
                 ('crl_listed', 'vx_self.entries@.contains_key(crl.name)'),
                 ('entry_done_or_to_come', '''forall |n: ObjectName| #[trigger] published_objects@.contains_key(n) ==>
                        (vx_self.entries@.contains_key(n) && vx_self.entries@[n] == published_objects@[n].hash)
                        || exists |j: int| vx_it.index@ <= j < vx_it.seq().len() && *(#[trigger] vx_it.seq()[j]).0 == n'''),
                 ('crl_hash_unless_an_object_has_its_name', '!published_objects@.contains_key(crl.name) ==> vx_self.entries@[crl.name] == crl.hash'),
             ]}},
             ghost=[
                 (('loop_start', 0), '''let ghost g_e = vx_self.entries@; let ghost g_i = vx_it.index@ as int;
                    proof { assert((name, object) == vx_it.seq()[g_i]); assert(published_objects@.contains_key(*name) && published_objects@[*name] == *object); }'''),
                 (('loop_end', 0), '''proof {
                    assert(vx_self.entries@ == g_e.insert(*name, object.hash));
                    assert forall |n: ObjectName| #[trigger] published_objects@.contains_key(n) implies
                        (vx_self.entries@.contains_key(n) && vx_self.entries@[n] == published_objects@[n].hash)
                        || exists |j: int| g_i + 1 <= j < vx_it.seq().len() && *(#[trigger] vx_it.seq()[j]).0 == n by {
                        if n != *name && !(g_e.contains_key(n) && g_e[n] == published_objects@[n].hash) {
                            let j = choose |j: int| g_i <= j < vx_it.seq().len() && *(#[trigger] vx_it.seq()[j]).0 == n; assert(j != g_i);
                        }
                    }
                 }'''),
             ]),
    ])
    U.impl('impl KeyObjectSet', [
        U.fn(PUB, 'KeyObjectSet', 'reissue',
             closures={'|m|': {'header': '|m: BuiltManifest| -> (o: PublishedManifest)', 'ensures': 'o == m.0'}},
             requires=[('km', km), ('no_overflow', 'old(self).revision.number < u64::MAX')],
             ensures=[
                 ('number_plus_one', 'r is Ok ==> final(self).revision.number == old(self).revision.number + 1'),
                 ('numbers_agree', 'r is Ok ==> crl_number(final(self).crl) == final(self).revision.number && mft_number(final(self).manifest) == final(self).revision.number'),
                 ('windows_agree', 'r is Ok ==> crl_window(final(self).crl) == mft_window(final(self).manifest)'),
                 ('payloads_unchanged', 'final(self).published_objects@ == old(self).published_objects@'),
                 ('keeps_unexpired_revocations', 'r is Ok ==> forall |s: Serial, t: Time| rev_has(old(self).revocations, s, t) && !expired(t) ==> #[trigger] rev_has(final(self).revocations, s, t)'),
                 ('revokes_nothing_new', 'r is Ok ==> forall |s: Serial, t: Time| #[trigger] rev_has(final(self).revocations, s, t) ==> rev_has(old(self).revocations, s, t)'),
                 ('crl_from_own_revocations', 'r is Ok ==> crl_revocations(final(self).crl) == final(self).revocations'),
                 ('manifest_lists_crl_and_objects', 'r is Ok ==> mft_entries(final(self).manifest) == expected_entries(final(self).crl, final(self).published_objects@)'),
             ]),
    ])
    return U
