"""C13 (endpoints served without credentials): /auth/login and /auth/logout reach only the authorizer (login URL, login, logout) --
no CA, publication-server or trust-anchor facade method, which all carry a permission precondition in these units -- and the raw
request is handed to the authorizer as it came in."""
from units.c13_handlers import build_file


def extra(U):
    U.outside('''
pub struct HyperRequest(pub u8);
pub struct Authorizer(pub u8);
pub struct LoggedInUser(pub u8);
impl<'a> Request<'a> { pub fn proceed_raw(self) -> (&'a HttpServer, HyperRequest) { unimplemented!() } }
impl HttpServer { pub fn authorizer(&self) -> &Authorizer { unimplemented!() } }
impl Authorizer {
    pub fn get_login_url(&self) -> Result<HttpResponse, Error> { unimplemented!() }
    pub fn login(&self, _r: &HyperRequest) -> Result<LoggedInUser, Error> { unimplemented!() }
    pub fn logout(&self, _r: &HyperRequest) -> Result<HttpResponse, Error> { unimplemented!() }
}
''')
    U.add('''
#[verifier::external_type_specification] #[verifier::external_body] pub struct ExHyperRequest(HyperRequest);
#[verifier::external_type_specification] #[verifier::external_body] pub struct ExAuthorizer(Authorizer);
#[verifier::external_type_specification] #[verifier::external_body] pub struct ExLoggedInUser(LoggedInUser);
/// hands out the server and the raw request without establishing any permission (only the authorizer may be reached with it)
pub assume_specification<'a> [Request::<'a>::proceed_raw] (r: Request<'a>) -> (o: (&'a HttpServer, HyperRequest));
pub assume_specification [HttpServer::authorizer] (s: &HttpServer) -> (r: &Authorizer);
pub assume_specification [Authorizer::get_login_url] (a: &Authorizer) -> (r: Result<HttpResponse, Error>);
pub assume_specification [Authorizer::login] (a: &Authorizer, r: &HyperRequest) -> (o: Result<LoggedInUser, Error>);
pub assume_specification [Authorizer::logout] (a: &Authorizer, r: &HyperRequest) -> (o: Result<HttpResponse, Error>);
''')


def build():
    return build_file('auth.rs', 'c13_h_auth', 'login / logout endpoints reach only the authorizer (login URL, login, logout), never a state facade', skip=('callback',), extra=extra)
