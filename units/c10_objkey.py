"""C10 (which object a URI names): CurrentObjectUri::from(&uri::Rsync) -- the key under which a published object is filed is
"rsync://" + lower-case authority + "/" + module + "/" + path, i.e. a function of exactly the components in which rpki's URI equality
(and with it the jail check and the staging map) distinguishes URIs: two spellings of the same URI (scheme or host in another case)
name the same object."""
from vxlib import Unit
from units import prelude

RR = 'src/server/pubd/rrdp.rs'

SPEC = r'''
// ---- ASSUMED: rpki-rs uri::Rsync accessors (uninterpreted strings) ----
pub uninterp spec fn authority_of(u: uri::Rsync) -> Seq<char>;
pub uninterp spec fn module_name_of(u: uri::Rsync) -> Seq<char>;
pub uninterp spec fn path_of(u: uri::Rsync) -> Seq<char>;
/// the module part as it was written (scheme and authority in whatever case the client used)
pub uninterp spec fn module_as_written(u: uri::Rsync) -> Seq<char>;
pub uninterp spec fn lower(s: Seq<char>) -> Seq<char>;
pub uninterp spec fn has_upper(s: Seq<char>) -> bool;
pub assume_specification [uri::Rsync::authority] (u: &uri::Rsync) -> (r: &str) ensures r@ == authority_of(*u);
pub assume_specification [uri::Rsync::module_name] (u: &uri::Rsync) -> (r: &str) ensures r@ == module_name_of(*u);
/// the whole URI / its module part exactly as the client wrote them
pub uninterp spec fn as_written(u: uri::Rsync) -> Seq<char>;
pub assume_specification [uri::Rsync::as_str] (u: &uri::Rsync) -> (r: &str) ensures r@ == as_written(*u);
pub assume_specification [uri::Rsync::module] (u: &uri::Rsync) -> (r: &str) ensures r@ == module_as_written(*u);
pub assume_specification [uri::Rsync::path] (u: &uri::Rsync) -> (r: &str) ensures r@ == path_of(*u);
/// what rpki 0.18 does: canonical only if the AUTHORITY has an upper-case character, otherwise the module as written
pub assume_specification [uri::Rsync::canonical_module] (u: &uri::Rsync) -> (r: Cow<'_, str>)
    ensures cow_str_view(r) == (if has_upper(authority_of(*u)) { "rsync://"@ + lower(authority_of(*u)) + "/"@ + module_name_of(*u) + "/"@ } else { module_as_written(*u) });
pub assume_specification [str::to_ascii_lowercase] (s: &str) -> (r: String) ensures r@ == lower(s@);
pub uninterp spec fn arc_of(s: Seq<char>) -> Arc<str>;
/// ASSUMED: String -> Arc<str> (std's From impl behind `.into()`) keeps the characters
pub assume_specification [<Arc<str> as From<String>>::from] (s: String) -> (r: Arc<str>) ensures r == arc_of(s@);

/// the statement: the key is built from exactly what URI equality compares (scheme fixed, authority case-folded, module, path)
pub open spec fn canonical_key(u: uri::Rsync) -> Seq<char> {
    "rsync://"@ + lower(authority_of(u)) + "/"@ + module_name_of(u) + "/"@ + path_of(u)
}
/// ASSUMED characterisation of `uri::Rsync` equality (rpki-rs: scheme ignored, authority compared ignoring ASCII case)
pub open spec fn same_uri(a: uri::Rsync, b: uri::Rsync) -> bool {
    lower(authority_of(a)) == lower(authority_of(b)) && module_name_of(a) == module_name_of(b) && path_of(a) == path_of(b)
}
'''

LEMMA = r'''
pub proof fn lemma_spellings_of_one_uri_name_one_object(a: uri::Rsync, b: uri::Rsync)
    requires same_uri(a, b)
    ensures canonical_key(a) == canonical_key(b)
{}
'''


def build():
    U = Unit('c10_objkey', 'C10', 'the key of a published object is canonical in scheme and host: spellings of one URI name one object')
    prelude.strings(U)
    prelude.format_concat(U)
    U.opaque('Rsync', 'Clone', module='uri')
    U.outside('''
use std::sync::Arc;
use vstd::std_specs::convert::*;
impl uri::Rsync {
    pub fn authority(&self) -> &str { unimplemented!() }
    pub fn module_name(&self) -> &str { unimplemented!() }
    pub fn path(&self) -> &str { unimplemented!() }
    pub fn canonical_module(&self) -> Cow<'_, str> { unimplemented!() }
    pub fn as_str(&self) -> &str { unimplemented!() }
    pub fn module(&self) -> &str { unimplemented!() }
}
''')
    U.struct(RR, 'CurrentObjectUri', derive=[])
    U.add(SPEC)
    U.impl('impl CurrentObjectUri', [
        U.fn(RR, 'CurrentObjectUri', 'from', trait_full='From<&uri::Rsync>', as_inherent=True, fmt='concat',
             ensures=[('key_is_canonical', 'r.0 == arc_of(canonical_key(*value))')]),
    ])
    U.lemma('spellings_of_one_uri_name_one_object', LEMMA)
    return U
