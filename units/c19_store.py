"""C19: CaStatusStore -- every recording operation changes exactly the entry it names (the repository record of that CA, the record
of that parent / child of that CA) by exactly the record operation verified in unit c19_status, creates missing entries as
"never contacted", and leaves every other CA, parent and child untouched; removal removes exactly the named entry.  The RwLock
around the cache is read as the exclusive borrow it grants (R23): single-task semantics, no interleaving claim.  Write-through to
the key-value store is an assumed external: nothing is claimed about what is on disk (restart clause not decided)."""
from vxlib import Unit
from units import prelude
from units import c19_status as S

ST = 'src/server/ca/status.rs'
CA = 'src/api/ca.rs'

OUT = '''
use std::borrow::Cow;
pub type KrillResult<T> = Result<T, Error>;
pub type Entitlements = ResourceClassListResponse;
impl From<KeyValueError> for Error { fn from(_: KeyValueError) -> Self { unimplemented!() } }
impl KeyValueStore {
    pub fn store<V>(&self, _scope: Option<&Ident>, _key: &Ident, _value: &V) -> Result<(), KeyValueError> { unimplemented!() }
    pub fn drop_key(&self, _scope: Option<&Ident>, _key: &Ident) -> Result<(), KeyValueError> { unimplemented!() }
    pub fn drop_scope(&self, _scope: &Ident) -> Result<(), KeyValueError> { unimplemented!() }
}
'''

SPEC = r'''
pub assume_specification [<Error as From<KeyValueError>>::from] (e: KeyValueError) -> (o: Error);
// ASSUMED externals: the key-value store (write-through; no model of what is on disk)
pub assume_specification<V> [KeyValueStore::store] (s: &KeyValueStore, scope: Option<&Ident>, key: &Ident, value: &V) -> (r: Result<(), KeyValueError>);
pub assume_specification [KeyValueStore::drop_key] (s: &KeyValueStore, scope: Option<&Ident>, key: &Ident) -> (r: Result<(), KeyValueError>);
pub assume_specification [KeyValueStore::drop_scope] (s: &KeyValueStore, scope: &Ident) -> (r: Result<(), KeyValueError>);
pub assume_specification<'a, 'b, B: ?Sized + ToOwned> [<Cow<'a, B> as std::ops::Deref>::deref] (c: &'b Cow<'a, B>) -> (r: &'b B);
pub assume_specification<'a, T, A> [<std::boxed::Box<T, A> as std::ops::Deref>::deref] (b: &'a std::boxed::Box<T, A>) -> (r: &'a T)
           where A: std::alloc::Allocator, T: std::marker::MetaSized + ?Sized,
    ensures r == &**b;
pub uninterp spec fn error_response_of(e: Error) -> ErrorResponse;

// ---- views ----
pub open spec fn fresh_ca(s: CaStatus) -> bool { fresh_repo(s.repo) && s.parents.0@ == Map::<ParentHandle, ParentStatus>::empty() && s.children@ == Map::<ChildHandle, ChildStatus>::empty() }
pub open spec fn keys_ok() -> bool { obeys_key_model::<CaHandle>() && obeys_key_model::<ParentHandle>() && obeys_key_model::<ChildHandle>() }
/// every other CA keeps its status; `ca` has an entry afterwards
pub open spec fn only_ca_touched(old_m: Map<CaHandle, CaStatus>, new_m: Map<CaHandle, CaStatus>, ca: CaHandle) -> bool {
    new_m.contains_key(ca)
    && forall |c: CaHandle| c != ca ==> (#[trigger] new_m.contains_key(c) == old_m.contains_key(c)) && (old_m.contains_key(c) ==> new_m[c] == old_m[c])
}
/// the status of `ca` before the operation: its entry, or (described by `fresh_ca`) a new one
pub open spec fn was(old_m: Map<CaHandle, CaStatus>, ca: CaHandle, s: CaStatus) -> bool { if old_m.contains_key(ca) { s == old_m[ca] } else { fresh_ca(s) } }
/// the record of a parent / child before the operation: its entry, or a new one ("never contacted")
pub open spec fn parent_was(s: CaStatus, parent: ParentHandle, p0: ParentStatus) -> bool { if s.parents.0@.contains_key(parent) { p0 == s.parents.0@[parent] } else { never_contacted(p0) } }
pub open spec fn child_was(s: CaStatus, child: ChildHandle, c0: ChildStatus) -> bool { if s.children@.contains_key(child) { c0 == s.children@[child] } else { fresh_child(c0) } }
'''


def kc(key, var, ren=None):
    """the contract of a record operation (unit c19_status) as the ensures clause of the closure that calls it on `var`"""
    import re
    out = []
    for _nm, text in S.K[key]:
        t = re.sub(r'\bself\b', var, text)
        for a, b in (ren or {}).items():
            t = re.sub(r'(?<![.\w])' + a + r'\b', b, t)
        out.append('(' + t + ')')
    return ' && '.join(out)


REPO_POST = '''exists |s: CaStatus| #![trigger was(old(self).cache@, *ca, s)] was(old(self).cache@, *ca, s)
    && final(self).cache@[*ca].parents == s.parents && final(self).cache@[*ca].children == s.children
    && (exists |x: &mut RepoStatus| #![trigger call_ensures(op, (x,), ())] *x == s.repo && *final(x) == final(self).cache@[*ca].repo && call_ensures(op, (x,), ()))'''
CHILD_POST = '''exists |s: CaStatus| #![trigger was(old(self).cache@, *ca, s)] was(old(self).cache@, *ca, s)
    && final(self).cache@[*ca].parents == s.parents && final(self).cache@[*ca].repo == s.repo
    && final(self).cache@[*ca].children@.contains_key(*child)
    && (forall |c: ChildHandle| c != *child ==> (#[trigger] final(self).cache@[*ca].children@.contains_key(c) == s.children@.contains_key(c))
            && (s.children@.contains_key(c) ==> final(self).cache@[*ca].children@[c] == s.children@[c]))
    && (exists |x: &mut ChildStatus| #![trigger call_ensures(op, (x,), ())] child_was(s, *child, *x)
            && *final(x) == final(self).cache@[*ca].children@[*child] && call_ensures(op, (x,), ()))'''
PARENT_POST = '''exists |s: CaStatus| #![trigger was(old(self).cache@, *ca, s)] was(old(self).cache@, *ca, s)
    && final(self).cache@[*ca].children == s.children && final(self).cache@[*ca].repo == s.repo
    && final(self).cache@[*ca].parents.0@.contains_key(*parent)
    && (forall |p: ParentHandle| p != *parent ==> (#[trigger] final(self).cache@[*ca].parents.0@.contains_key(p) == s.parents.0@.contains_key(p))
            && (s.parents.0@.contains_key(p) ==> final(self).cache@[*ca].parents.0@[p] == s.parents.0@[p]))
    && (exists |x: &mut ParentStatus| #![trigger call_ensures(op, (x,), ())] parent_was(s, *parent, *x)
            && *final(x) == final(self).cache@[*ca].parents.0@[*parent] && call_ensures(op, (x,), ()))'''


def kpost(key, new, old, ren=None):
    """the contract of a record operation with `final(self)` / `old(self)` replaced by the record after / before"""
    import re
    out = []
    for _nm, text in S.K[key]:
        t = text.replace('final(self)', new).replace('old(self)', old)
        for a, b in (ren or {}).items():
            t = re.sub(r'(?<![.\w])' + a + r'\b', b, t)
        out.append('(' + t + ')')
    return ' && '.join(out)


def repo_post(key, ren=None):
    return ("""exists |s: CaStatus| #![trigger was(old(self).cache@, *ca, s)] was(old(self).cache@, *ca, s)
    && final(self).cache@[*ca].parents == s.parents && final(self).cache@[*ca].children == s.children && """
            + kpost(key, 'final(self).cache@[*ca].repo', 's.repo', ren))


def child_post(key, ren=None):
    return ("""exists |s: CaStatus, c0: ChildStatus| #![trigger was(old(self).cache@, *ca, s), child_was(s, *child, c0)] was(old(self).cache@, *ca, s)
    && final(self).cache@[*ca].parents == s.parents && final(self).cache@[*ca].repo == s.repo
    && final(self).cache@[*ca].children@.contains_key(*child)
    && (forall |c: ChildHandle| c != *child ==> (#[trigger] final(self).cache@[*ca].children@.contains_key(c) == s.children@.contains_key(c))
            && (s.children@.contains_key(c) ==> final(self).cache@[*ca].children@[c] == s.children@[c]))
    && child_was(s, *child, c0) && """
            + kpost(key, 'final(self).cache@[*ca].children@[*child]', 'c0', ren))


def parent_post(key, ren=None):
    return ("""exists |s: CaStatus, p0: ParentStatus| #![trigger was(old(self).cache@, *ca, s), parent_was(s, *parent, p0)] was(old(self).cache@, *ca, s)
    && final(self).cache@[*ca].children == s.children && final(self).cache@[*ca].repo == s.repo
    && final(self).cache@[*ca].parents.0@.contains_key(*parent)
    && (forall |p: ParentHandle| p != *parent ==> (#[trigger] final(self).cache@[*ca].parents.0@.contains_key(p) == s.parents.0@.contains_key(p))
            && (s.parents.0@.contains_key(p) ==> final(self).cache@[*ca].parents.0@[p] == s.parents.0@[p]))
    && parent_was(s, *parent, p0) && """
            + kpost(key, 'final(self).cache@[*ca].parents.0@[*parent]', 'p0', ren))


def build():
    U = Unit('c19_store', 'C19', 'status store: each recording operation applies exactly the verified record operation to exactly the entry it names; other entries untouched; removal removes the named entry')
    U.feature('allocator_api', 'sized_hierarchy')
    prelude.strings(U)
    prelude.hashmap(U, get_mut=True)
    for t in ['CaHandle', 'ParentHandle', 'ChildHandle']:
        U.opaque(t, 'Clone, PartialEq, Eq, Hash')
    for t in ['Error', 'KeyValueError', 'KeyValueStore']:
        U.opaque(t, '')
    U.opaque('Ident', 'Clone')
    S.externals(U)
    U.outside(OUT)
    S.types(U, defaults=True)
    U.struct(ST, 'CaStatus', derive=['Default'], default_ensures=[('nothing_known_yet', 'fresh_ca(r)')])
    U.struct(ST, 'CaStatusStore', derive=[], unlock=['cache'])
    U.add(S.SPEC)
    U.add(SPEC)
    # the record operations: verified in unit c19_status, called here under the same contracts
    U.impl('impl ParentStatus', [U.fn(CA, 'ParentStatus', f, external_body=True, ensures=S.K['ParentStatus::' + f]) for f in ('set_failure', 'set_last_updated', 'set_entitlements')])
    U.impl('impl RepoStatus', [U.fn(CA, 'RepoStatus', f, external_body=True, ensures=S.K['RepoStatus::' + f]) for f in ('set_failure', 'set_last_updated', 'update_published')])
    U.impl('impl ChildStatus', [U.fn(CA, 'ChildStatus', f, external_body=True, ensures=S.K['ChildStatus::' + f]) for f in ('set_success', 'set_failure', 'set_suspended')])
    U.impl('impl ParentStatuses', [U.fn(CA, 'ParentStatuses', f, external_body=True, requires=[('km', S.KM)], ensures=S.K['ParentStatuses::' + f]) for f in ('get_or_default_mut', 'remove')])
    U.impl('impl CaStatus', [
        U.fn(ST, 'CaStatus', 'repo', ensures=[('is_field', '*r == self.repo')]),
    ])
    km = [('km', 'keys_ok()')]
    U.impl('impl CaStatusStore', [
        U.fn(ST, 'CaStatusStore', 'scope', external_body=True),
        U.fn(ST, 'CaStatusStore', 'repo_status_key', external_body=True),
        U.fn(ST, 'CaStatusStore', 'parent_status_key', external_body=True),
        U.fn(ST, 'CaStatusStore', 'child_status_key', external_body=True),
        U.fn(ST, 'CaStatusStore', 'error_to_error_res', external_body=True, ensures=[('names_the_response', 'r == error_response_of(*error)')]),
        U.fn(ST, 'CaStatusStore', 'update_repo_status', mut_self=True, unlock=['cache'],
             requires=km + [('op_callable', 'forall |x: &mut RepoStatus| call_requires(op, (x,))')],
             ensures=[
                 ('other_cas_untouched', 'only_ca_touched(old(self).cache@, final(self).cache@, *ca)'),
                 ('repo_record_of_this_ca_is_what_op_made_of_it_parents_and_children_untouched', REPO_POST),
             ], ghost=[(('after', 'cache.get_mut(ca).unwrap();', 0), 'let ghost vx_s0 = *ca_status; proof { assert(was(old(self).cache@, *ca, vx_s0)); }'),
                       (('after', 'op(&mut ca_status.repo);', 0), 'proof { assert(ca_status.parents == vx_s0.parents && ca_status.children == vx_s0.children); }')]),
        U.fn(ST, 'CaStatusStore', 'update_ca_child_status', mut_self=True, unlock=['cache'],
             requires=km + [('op_callable', 'forall |x: &mut ChildStatus| call_requires(op, (x,))')],
             ensures=[
                 ('other_cas_untouched', 'only_ca_touched(old(self).cache@, final(self).cache@, *ca)'),
                 ('record_of_this_child_is_what_op_made_of_it_everything_else_untouched', CHILD_POST),
             ], ghost=[(('after', 'cache.get_mut(ca).unwrap();', 0), 'let ghost vx_s0 = *ca_status; proof { assert(was(old(self).cache@, *ca, vx_s0)); }'),
                       (('after', 'ca_status.children.get_mut(child).unwrap();', 0), 'let ghost vx_c0 = *child_status;'),
                       (('after', 'op(child_status);', 0), 'proof { assert(ca_status.parents == vx_s0.parents && ca_status.repo == vx_s0.repo); }')]),
        U.fn(ST, 'CaStatusStore', 'update_ca_parent_status', mut_self=True, unlock=['cache'],
             requires=km + [('op_callable', 'forall |x: &mut ParentStatus| call_requires(op, (x,))')],
             ensures=[
                 ('other_cas_untouched', 'only_ca_touched(old(self).cache@, final(self).cache@, *ca)'),
                 ('record_of_this_parent_is_what_op_made_of_it_everything_else_untouched', PARENT_POST),
             ], ghost=[(('after', 'cache.get_mut(ca).unwrap();', 0), 'let ghost vx_s0 = *ca_status; proof { assert(was(old(self).cache@, *ca, vx_s0)); }'),
                       (('after', 'ca_status.parents.get_or_default_mut(parent);', 0), 'let ghost vx_p0 = *parent_status;'),
                       (('after', 'op(parent_status);', 0), 'proof { assert(ca_status.children == vx_s0.children && ca_status.repo == vx_s0.repo); }')]),
        # ---- the recording operations ----
        U.fn(ST, 'CaStatusStore', 'set_status_repo_failure', mut_self=True, requires=km,
             closures={0: {'header': '|status: &mut RepoStatus|', 'ensures': kc('RepoStatus::set_failure', 'status', {'error': 'error_response'})}},
             ensures=[('other_cas_untouched', 'only_ca_touched(old(self).cache@, final(self).cache@, *ca)'), ('failure_recorded_on_the_repo_record_of_this_ca_only', repo_post('RepoStatus::set_failure', {'error': 'error_response_of(*error)'}))]),
        U.fn(ST, 'CaStatusStore', 'set_status_repo_success', mut_self=True, requires=km,
             closures={0: {'header': '|status: &mut RepoStatus|', 'ensures': kc('RepoStatus::set_last_updated', 'status')}},
             ensures=[('other_cas_untouched', 'only_ca_touched(old(self).cache@, final(self).cache@, *ca)'), ('success_recorded_on_the_repo_record_of_this_ca_only', repo_post('RepoStatus::set_last_updated'))]),
        U.fn(ST, 'CaStatusStore', 'set_status_repo_published', mut_self=True, requires=km,
             closures={0: {'header': '|status: &mut RepoStatus|', 'ensures': kc('RepoStatus::update_published', 'status')}},
             ensures=[('other_cas_untouched', 'only_ca_touched(old(self).cache@, final(self).cache@, *ca)'), ('delta_applied_to_the_published_list_of_this_ca_only', repo_post('RepoStatus::update_published'))]),
        U.fn(ST, 'CaStatusStore', 'set_parent_failure', mut_self=True, requires=km,
             closures={0: {'header': '|status: &mut ParentStatus|', 'ensures': kc('ParentStatus::set_failure', 'status', {'error': 'error_response', 'uri': '*uri'})}},
             ensures=[('other_cas_untouched', 'only_ca_touched(old(self).cache@, final(self).cache@, *ca)'), ('failure_recorded_for_this_parent_only', parent_post('ParentStatus::set_failure', {'error': 'error_response_of(*error)', 'uri': '*uri'}))]),
        U.fn(ST, 'CaStatusStore', 'set_parent_last_updated', mut_self=True, requires=km,
             closures={0: {'header': '|status: &mut ParentStatus|', 'ensures': kc('ParentStatus::set_last_updated', 'status', {'uri': '*uri'})}},
             ensures=[('other_cas_untouched', 'only_ca_touched(old(self).cache@, final(self).cache@, *ca)'), ('success_recorded_for_this_parent_only', parent_post('ParentStatus::set_last_updated', {'uri': '*uri'}))]),
        U.fn(ST, 'CaStatusStore', 'set_parent_entitlements', mut_self=True, requires=km,
             closures={0: {'header': '|status: &mut ParentStatus|', 'ensures': kc('ParentStatus::set_entitlements', 'status', {'uri': '*uri'})}},
             ensures=[('other_cas_untouched', 'only_ca_touched(old(self).cache@, final(self).cache@, *ca)'), ('entitlements_recorded_for_this_parent_only', parent_post('ParentStatus::set_entitlements', {'uri': '*uri'}))]),
        U.fn(ST, 'CaStatusStore', 'set_child_success', mut_self=True, requires=km,
             closures={0: {'header': '|status: &mut ChildStatus|', 'ensures': kc('ChildStatus::set_success', 'status')}},
             ensures=[('other_cas_untouched', 'only_ca_touched(old(self).cache@, final(self).cache@, *ca)'), ('success_recorded_for_this_child_only', child_post('ChildStatus::set_success'))]),
        U.fn(ST, 'CaStatusStore', 'set_child_failure', mut_self=True, requires=km,
             closures={0: {'header': '|status: &mut ChildStatus|', 'ensures': kc('ChildStatus::set_failure', 'status')}},
             ensures=[('other_cas_untouched', 'only_ca_touched(old(self).cache@, final(self).cache@, *ca)'), ('failure_recorded_for_this_child_only', child_post('ChildStatus::set_failure', {'error_response': 'error_response_of(*error)'}))]),
        U.fn(ST, 'CaStatusStore', 'set_child_suspended', mut_self=True, requires=km,
             closures={0: {'header': '|status: &mut ChildStatus|', 'ensures': kc('ChildStatus::set_suspended', 'status')}},
             ensures=[('other_cas_untouched', 'only_ca_touched(old(self).cache@, final(self).cache@, *ca)'), ('suspension_recorded_for_this_child_only', child_post('ChildStatus::set_suspended'))]),
        # ---- removal ----
        U.fn(ST, 'CaStatusStore', 'remove_parent', mut_self=True, unlock=['cache'], requires=km, ensures=[
            ('only_the_entry_of_this_parent_of_this_ca_removed', '''forall |c: CaHandle| (#[trigger] final(self).cache@.contains_key(c) == old(self).cache@.contains_key(c))
                && (old(self).cache@.contains_key(c) && c != *ca ==> final(self).cache@[c] == old(self).cache@[c])
                && (old(self).cache@.contains_key(c) && c == *ca ==> final(self).cache@[c].parents.0@ == old(self).cache@[c].parents.0@.remove(*parent)
                        && final(self).cache@[c].repo == old(self).cache@[c].repo && final(self).cache@[c].children == old(self).cache@[c].children)''')]),
        U.fn(ST, 'CaStatusStore', 'remove_child', mut_self=True, unlock=['cache'], requires=km, ensures=[
            ('only_the_entry_of_this_child_of_this_ca_removed', '''forall |c: CaHandle| (#[trigger] final(self).cache@.contains_key(c) == old(self).cache@.contains_key(c))
                && (old(self).cache@.contains_key(c) && c != *ca ==> final(self).cache@[c] == old(self).cache@[c])
                && (old(self).cache@.contains_key(c) && c == *ca ==> final(self).cache@[c].children@ == old(self).cache@[c].children@.remove(*child)
                        && final(self).cache@[c].repo == old(self).cache@[c].repo && final(self).cache@[c].parents == old(self).cache@[c].parents)''')]),
        U.fn(ST, 'CaStatusStore', 'remove_ca', mut_self=True, unlock=['cache'], requires=km, ensures=[
            ('only_this_ca_removed', 'final(self).cache@ == old(self).cache@.remove(*ca)')]),
    ])
    return U
