"""C05: ROA delta processing (Routes::process_updates and helpers) -- all or nothing, refused exactly when ..."""
from vxlib import Unit
from units import prelude

ROA = 'src/server/ca/roa.rs'
API = 'src/api/roa.rs'
ERR = 'src/commons/error.rs'
EV = 'src/server/ca/events.rs'

SPEC = r'''
pub uninterp spec fn held(r: ResourceSet, a: RoaIpAddress) -> bool;
pub uninterp spec fn addr_of(p: RoaPayload) -> RoaIpAddress;
pub assume_specification [ResourceSet::contains_roa_address] (r: &ResourceSet, a: &RoaIpAddress) -> (b: bool) ensures b == held(*r, *a);
pub assume_specification [Time::now] () -> (r: Time);

// ---- statement-level vocabulary ----
pub open spec fn plen(p: TypedPrefix) -> u8 { match p { TypedPrefix::V4(x) => x.addr_len, TypedPrefix::V6(x) => x.addr_len } }
/// "invalid maximum length": present and (shorter than the prefix or longer than the family maximum)
pub open spec fn ml_valid(p: RoaPayload) -> bool {
    match p.max_length { None => true, Some(m) => m >= plen(p.prefix) && m <= (if p.prefix is V4 { 32u8 } else { 128u8 }) }
}
pub open spec fn key(p: RoaPayload) -> RoaPayloadJsonMapKey { RoaPayloadJsonMapKey(p) }
/// the configuration as the user sees it: payload -> comment
pub type CView = Map<RoaPayloadJsonMapKey, Option<Seq<char>>>;
pub open spec fn cview(r: Routes) -> CView { r.map@.map_values(|i: RouteInfo| ov(i.comment)) }

/// working copy after the first n removals
pub open spec fn rm_view(v: CView, removed: Seq<RoaPayload>, n: int) -> CView decreases n {
    if n <= 0 { v } else { rm_view(v, removed, n - 1).remove(key(removed[n - 1])) }
}
/// number of removals among the first n that name an authorisation not present at their turn
pub open spec fn rm_errs(v: CView, removed: Seq<RoaPayload>, n: int) -> int decreases n {
    if n <= 0 { 0 } else { rm_errs(v, removed, n - 1) + if rm_view(v, removed, n - 1).contains_key(key(removed[n - 1])) { 0int } else { 1int } }
}
/// an addition is refused at its turn (w = working copy): invalid max length, prefix not held, or already present with the same comment
pub open spec fn add_refused(w: CView, c: RoaConfiguration, res: ResourceSet) -> bool {
    !ml_valid(c.payload) || !held(res, addr_of(c.payload)) || (w.contains_key(key(c.payload)) && w[key(c.payload)] == ov(c.comment))
}
/// working copy after the first n additions (a comment change of a present entry does not change the tracked copy:
/// the code only tracks it for duplicate detection, see DESIGN C05)
pub open spec fn add_view(v: CView, added: Seq<RoaConfiguration>, res: ResourceSet, n: int) -> CView decreases n {
    if n <= 0 { v } else {
        let w = add_view(v, added, res, n - 1); let c = added[n - 1];
        if add_refused(w, c, res) || w.contains_key(key(c.payload)) { w } else { w.insert(key(c.payload), ov(c.comment)) }
    }
}
pub open spec fn add_errs(v: CView, added: Seq<RoaConfiguration>, res: ResourceSet, n: int) -> int decreases n {
    if n <= 0 { 0 } else { add_errs(v, added, res, n - 1) + if add_refused(add_view(v, added, res, n - 1), added[n - 1], res) { 1int } else { 0int } }
}
/// replaying the emitted events with the semantics of CertAuth::apply (key sets)
pub open spec fn replay_dom(d: Set<RoaPayloadJsonMapKey>, evs: Seq<CertAuthEvent>) -> Set<RoaPayloadJsonMapKey> decreases evs.len() {
    if evs.len() == 0 { d } else {
        let p = replay_dom(d, evs.drop_last());
        match evs.last() {
            CertAuthEvent::RouteAuthorizationAdded { auth } => p.insert(auth),
            CertAuthEvent::RouteAuthorizationRemoved { auth } => p.remove(auth),
            _ => p,
        }
    }
}
pub proof fn lemma_replay_push(d: Set<RoaPayloadJsonMapKey>, evs: Seq<CertAuthEvent>, e: CertAuthEvent)
    ensures replay_dom(d, evs.push(e)) == (match e {
            CertAuthEvent::RouteAuthorizationAdded { auth } => replay_dom(d, evs).insert(auth),
            CertAuthEvent::RouteAuthorizationRemoved { auth } => replay_dom(d, evs).remove(auth),
            _ => replay_dom(d, evs) })
{
    assert(evs.push(e).drop_last() == evs);
    assert(evs.push(e).last() == e);
}
pub proof fn lemma_rm_errs_nonneg(v: CView, removed: Seq<RoaPayload>, n: int) ensures rm_errs(v, removed, n) >= 0 decreases n {
    if n > 0 { lemma_rm_errs_nonneg(v, removed, n - 1); }
}
pub proof fn lemma_add_errs_nonneg(v: CView, added: Seq<RoaConfiguration>, res: ResourceSet, n: int) ensures add_errs(v, added, res, n) >= 0 decreases n {
    if n > 0 { lemma_add_errs_nonneg(v, added, res, n - 1); }
}
pub open spec fn err_count(e: RoaDeltaError) -> int { (e.duplicates@.len() + e.notheld@.len() + e.unknowns@.len() + e.invalid_length@.len()) as int }
'''


def build():
    U = Unit('c05_routes', 'C05', 'ROA delta: refused exactly when an entry is invalid at its turn; accepted deltas replay to the returned state')
    prelude.hashmap(U, get_mut=True)
    prelude.strings(U)
    prelude.string_eq(U)
    U.opaque('CaHandle', 'Clone')
    U.opaque('ResourceSet', '')
    U.opaque('AsNumber', 'Clone, Copy, PartialEq, Eq, Hash')
    U.opaque('Time', 'Clone, Copy')
    U.opaque('RoaIpAddress', '')
    U.opaque('Ipv4Addr', 'Clone, Copy, PartialEq, Eq, Hash')
    U.opaque('Ipv6Addr', 'Clone, Copy, PartialEq, Eq, Hash')
    U.outside('''
pub type KrillResult<T> = Result<T, Error>;
impl ResourceSet { pub fn contains_roa_address(&self, _a: &RoaIpAddress) -> bool { unimplemented!() } }
impl Time { pub fn now() -> Time { unimplemented!() } }
''')
    U.add(SPEC)
    U.struct(API, 'RoaPayload', derive=['Clone', 'Copy', 'PartialEq', 'Eq', 'Hash'], structural=False)
    U.struct(API, 'RoaPayloadJsonMapKey', derive=['Clone', 'Copy', 'PartialEq', 'Eq', 'Hash'], structural=False)
    U.struct(API, 'RoaConfiguration', derive=['Clone'])
    U.struct(API, 'RoaConfigurationUpdates', derive=[])
    U.enum(API, 'TypedPrefix', derive=['Clone', 'Copy', 'PartialEq', 'Eq', 'Hash'], structural=False)
    U.struct(API, 'Ipv4Prefix', derive=['Clone', 'Copy', 'PartialEq', 'Eq', 'Hash'], structural=False)
    U.struct(API, 'Ipv6Prefix', derive=['Clone', 'Copy', 'PartialEq', 'Eq', 'Hash'], structural=False)
    U.struct(ROA, 'RouteInfo', derive=['Clone'])
    U.struct(ROA, 'Routes', derive=['Clone'])
    U.struct(ERR, 'RoaDeltaError', derive=[])
    U.enum(ERR, 'Error', keep=['RoaDeltaError'], derive=[])
    U.enum(EV, 'CertAuthEvent', keep=['RouteAuthorizationAdded', 'RouteAuthorizationComment', 'RouteAuthorizationRemoved'], derive=[])
    U.add('''
impl Default for RoaDeltaError {
    #[verifier::external_body]
    fn default() -> (r: Self) ensures err_count(r) == 0 { unimplemented!() }
}
impl RoaPayload {
    #[verifier::external_body]
    pub fn as_roa_ip_address(self) -> (r: RoaIpAddress) ensures r == addr_of(self) { unimplemented!() }
}
impl vstd::std_specs::convert::FromSpecImpl<RoaPayload> for RoaPayloadJsonMapKey {
    open spec fn obeys_from_spec() -> bool { true }
    open spec fn from_spec(v: RoaPayload) -> RoaPayloadJsonMapKey { RoaPayloadJsonMapKey(v) }
}
''')
    U.impl('impl From<RoaPayload> for RoaPayloadJsonMapKey', [
        U.fn(API, 'RoaPayloadJsonMapKey', 'from', trait_full='From<RoaPayload>', ensures=[('wraps', 'r == key(def)')]),
    ])
    U.impl('impl Default for RouteInfo', [
        U.fn(ROA, 'RouteInfo', 'default', trait='Default', ensures=[('no_comment', 'r.comment is None')]),
    ])
    U.impl('impl RoaDeltaError', [
        U.fn(ERR, 'RoaDeltaError', 'add_duplicate', ensures=[('counts', 'err_count(*final(self)) == err_count(*old(self)) + 1')]),
        U.fn(ERR, 'RoaDeltaError', 'add_notheld', ensures=[('counts', 'err_count(*final(self)) == err_count(*old(self)) + 1')]),
        U.fn(ERR, 'RoaDeltaError', 'add_unknown', ensures=[('counts', 'err_count(*final(self)) == err_count(*old(self)) + 1')]),
        U.fn(ERR, 'RoaDeltaError', 'add_invalid_length', ensures=[('counts', 'err_count(*final(self)) == err_count(*old(self)) + 1')]),
        U.fn(ERR, 'RoaDeltaError', 'is_empty', ensures=[('iff_zero', 'r == (err_count(*self) == 0)')]),
    ])
    U.impl('impl Ipv4Prefix', [U.fn(API, 'Ipv4Prefix', 'addr_len', ensures=[('is_field', 'r == self.addr_len')])])
    U.impl('impl Ipv6Prefix', [U.fn(API, 'Ipv6Prefix', 'addr_len', ensures=[('is_field', 'r == self.addr_len')])])
    U.impl('impl TypedPrefix', [U.fn(API, 'TypedPrefix', 'addr_len', ensures=[('is_plen', 'r == plen(self)')])])
    U.impl('impl RoaPayload', [
        U.fn(API, 'RoaPayload', 'max_length_valid', ensures=[('is_statement_definition', 'r == ml_valid(*self)')]),
        U.fn(API, 'RoaPayload', 'effective_max_length', ensures=[('def', 'r == (match self.max_length { None => plen(self.prefix), Some(l) => l })')]),
        U.fn(API, 'RoaPayload', 'into_explicit_max_length',
             requires=[('prefix_type_invariant', 'plen(self.prefix) <= (if self.prefix is V4 { 32u8 } else { 128u8 })')], ensures=[
            ('explicit', 'r.max_length == Some(match self.max_length { None => plen(self.prefix), Some(l) => l }), r.asn == self.asn, r.prefix == self.prefix'),
            ('validity_kept', 'ml_valid(r) == ml_valid(self)')]),
    ])
    km = 'obeys_key_model::<RoaPayloadJsonMapKey>()'
    U.impl('impl Routes', [
        U.fn(ROA, 'Routes', 'remove', requires=[('key_model', km)], ensures=[
            ('result', 'r == old(self).map@.contains_key(*auth)'), ('view', 'final(self).map@ == old(self).map@.remove(*auth)')]),
        U.fn(ROA, 'Routes', 'get', requires=[('key_model', km)], ensures=[
            ('lookup', 'r == (if self.map@.contains_key(*auth) { Some(&self.map@[*auth]) } else { None::<&RouteInfo> })')]),
        U.fn(ROA, 'Routes', 'add', requires=[('key_model', km)], ensures=[
            ('inserted', 'final(self).map@.dom() == old(self).map@.dom().insert(auth), final(self).map@[auth].comment is None'),
            ('frame', 'forall |k: RoaPayloadJsonMapKey| k != auth && old(self).map@.contains_key(k) ==> final(self).map@[k] == old(self).map@[k]')]),
        U.fn(ROA, 'Routes', 'update_comment', requires=[('key_model', km)], ensures=[
            ('dom_kept', 'final(self).map@.dom() == old(self).map@.dom()'),
            ('comment_set', 'old(self).map@.contains_key(*auth) ==> final(self).map@[*auth].comment == comment'),
            ('frame', 'forall |k: RoaPayloadJsonMapKey| k != *auth && old(self).map@.contains_key(k) ==> final(self).map@[k] == old(self).map@[k]')]),
        U.fn(ROA, 'Routes', 'process_updates', requires=[('key_model', km)], ensures=[
            ('refused_exactly_when', """(r is Err) <==> (rm_errs(cview(*self), updates.removed@, updates.removed@.len() as int)
                + add_errs(rm_view(cview(*self), updates.removed@, updates.removed@.len() as int), updates.added@, *all_resources, updates.added@.len() as int) > 0)"""),
            ('accepted_state', """r is Ok ==> cview(r->Ok_0.0) == add_view(rm_view(cview(*self), updates.removed@, updates.removed@.len() as int),
                updates.added@, *all_resources, updates.added@.len() as int)"""),
            ('events_replay_to_returned_state', 'r is Ok ==> replay_dom(self.map@.dom(), r->Ok_0.1@) == r->Ok_0.0.map@.dom()'),
            ('max_len_checked', 'r is Ok ==> forall |i: int| 0 <= i < updates.added@.len() ==> ml_valid(#[trigger] updates.added@[i].payload)'),
        ], loops={
            0: {'iter': 'vx_it', 'invariant': [('km', km),
                ('view', 'cview(desired_routes) == rm_view(cview(*self), updates.removed@, vx_it.index@ as int)'),
                ('errs', 'err_count(delta_errors) == rm_errs(cview(*self), updates.removed@, vx_it.index@ as int)'),
                ('replay', 'replay_dom(self.map@.dom(), res@) == desired_routes.map@.dom()'),
            ]},
            1: {'iter': 'vx_it', 'invariant': [('km', km),
                ('view', """cview(desired_routes) == add_view(rm_view(cview(*self), updates.removed@, updates.removed@.len() as int),
                    updates.added@, *all_resources, vx_it.index@ as int)"""),
                ('errs', """err_count(delta_errors) == rm_errs(cview(*self), updates.removed@, updates.removed@.len() as int)
                    + add_errs(rm_view(cview(*self), updates.removed@, updates.removed@.len() as int), updates.added@, *all_resources, vx_it.index@ as int)"""),
                ('errs_nonneg', 'rm_errs(cview(*self), updates.removed@, updates.removed@.len() as int) >= 0'),
                ('replay', 'replay_dom(self.map@.dom(), res@) == desired_routes.map@.dom()'),
                ('ml', 'forall |j: int| 0 <= j < vx_it.index@ ==> (ml_valid(#[trigger] updates.added@[j].payload) || err_count(delta_errors) > 0)'),
            ]},
        }, ghost=[
            (('body_start',), 'broadcast use axiom_string_eq; proof { axiom_string_obeys(); }'),
            (('before_loop', 0), 'proof { assert(cview(desired_routes) == cview(*self)); }'),
            (('loop_start', 0), """proof { let ghost g_i = vx_it.index@ as int; assert(updates.removed@[g_i] == *roa_payload); }
            let ghost g_res = res@; let ghost g_dr = desired_routes; let ghost g_i = vx_it.index@ as int;"""),
            (('loop_end', 0), """proof {
                lemma_replay_push(self.map@.dom(), g_res, CertAuthEvent::RouteAuthorizationRemoved { auth });
                assert(cview(desired_routes) =~= cview(g_dr).remove(auth));
                reveal_with_fuel(rm_view, 2); reveal_with_fuel(rm_errs, 2);
            }"""),
            (('before_loop', 1), """proof { lemma_rm_errs_nonneg(cview(*self), updates.removed@, updates.removed@.len() as int); }"""),
            (('loop_start', 1), """broadcast use axiom_string_eq;
            let ghost g_res = res@; let ghost g_dr = desired_routes; let ghost g_i = vx_it.index@ as int;
            proof { assert(updates.added@[g_i] == *roa_configuration); axiom_string_obeys(); }"""),
            (('after', 'if info.comment.as_ref() != comment {'), 'proof { /*@dbg_ne*/ assert(ov(info.comment) != ov(roa_configuration.comment)); }'),
            (('before', 'delta_errors.add_duplicate('), 'proof { /*@dbg_eq*/ assert(ov(info.comment) == ov(roa_configuration.comment)); }'),
            (('loop_end', 1), """proof {
                reveal_with_fuel(add_view, 2); reveal_with_fuel(add_errs, 2);
                lemma_add_errs_nonneg(rm_view(cview(*self), updates.removed@, updates.removed@.len() as int), updates.added@, *all_resources, g_i);
                if res@.len() == g_res.len() + 1 { lemma_replay_push(self.map@.dom(), g_res, res@.last()); assert(res@ == g_res.push(res@.last())); }
                if res@.len() == g_res.len() + 2 {
                    lemma_replay_push(self.map@.dom(), g_res, res@[g_res.len() as int]);
                    lemma_replay_push(self.map@.dom(), g_res.push(res@[g_res.len() as int]), res@.last());
                    assert(res@ == g_res.push(res@[g_res.len() as int]).push(res@.last()));
                }
                assert(cview(desired_routes) =~= add_view(rm_view(cview(*self), updates.removed@, updates.removed@.len() as int), updates.added@, *all_resources, g_i + 1));
            }"""),
        ]),
    ])
    return U
