"""C14 / C06: how the CA records the object updates of a command (BgpSecCertificates::apply_updates, AspaObjects::apply_updates):
every updated object REPLACES whatever the CA held under the same key (a renewed router certificate or ASPA object takes the
place of the one it renews, so the next maintenance run sees the new expiry and finds nothing due), every removed key is gone,
nothing else changes -- as a whole-map equation, for update lists of any length."""
from vxlib import Unit
from units import prelude

BG = 'src/server/ca/bgpsec.rs'
AS = 'src/server/ca/aspa.rs'

SPEC = r'''
pub uninterp spec fn bkey(i: BgpSecCertInfo) -> BgpSecAsnKey;
pub uninterp spec fn akey(i: AspaInfo) -> CustomerAsn;
pub assume_specification [BgpSecCertInfo::asn_key] (i: &BgpSecCertInfo) -> (r: BgpSecAsnKey) ensures r == bkey(*i);
pub assume_specification [AspaInfo::customer] (i: &AspaInfo) -> (r: CustomerAsn) ensures r == akey(*i);
/// the first n updated objects filed under their keys, later ones replacing earlier ones and whatever was there
pub open spec fn b_ins(m: Map<BgpSecAsnKey, BgpSecCertInfo>, us: Seq<BgpSecCertInfo>, n: int) -> Map<BgpSecAsnKey, BgpSecCertInfo> decreases n {
    if n <= 0 { m } else { b_ins(m, us, n - 1).insert(bkey(us[n - 1]), us[n - 1]) }
}
pub open spec fn b_rem(m: Map<BgpSecAsnKey, BgpSecCertInfo>, ks: Seq<BgpSecAsnKey>, n: int) -> Map<BgpSecAsnKey, BgpSecCertInfo> decreases n {
    if n <= 0 { m } else { b_rem(m, ks, n - 1).remove(ks[n - 1]) }
}
pub open spec fn a_ins(m: Map<CustomerAsn, AspaInfo>, us: Seq<AspaInfo>, n: int) -> Map<CustomerAsn, AspaInfo> decreases n {
    if n <= 0 { m } else { a_ins(m, us, n - 1).insert(akey(us[n - 1]), us[n - 1]) }
}
pub open spec fn a_rem(m: Map<CustomerAsn, AspaInfo>, ks: Seq<CustomerAsn>, n: int) -> Map<CustomerAsn, AspaInfo> decreases n {
    if n <= 0 { m } else { a_rem(m, ks, n - 1).remove(ks[n - 1]) }
}
'''


def build():
    U = Unit('c14_apply_updates', 'C14', 'recorded objects after a command: each updated object replaces the entry under its key, each removed key is gone, nothing else changes')
    prelude.hashmap(U)
    prelude.strings(U)
    U.opaque('BgpSecAsnKey', 'Clone, Copy, PartialEq, Eq, Hash')
    U.opaque('CustomerAsn', 'Clone, Copy, PartialEq, Eq, Hash')
    U.opaque('BgpSecCertInfo', '')
    U.opaque('AspaInfo', '')
    U.outside('impl BgpSecCertInfo { pub fn asn_key(&self) -> BgpSecAsnKey { unimplemented!() } }\nimpl AspaInfo { pub fn customer(&self) -> CustomerAsn { unimplemented!() } }')
    U.struct(BG, 'BgpSecCertificates', derive=[])
    U.struct(BG, 'BgpSecCertificateUpdates', derive=[])
    U.struct(AS, 'AspaObjects', derive=[])
    U.struct(AS, 'AspaObjectsUpdates', derive=[])
    U.add(SPEC)

    def fn(path, ty, km, ins, rem):
        return U.fn(path, ty, 'apply_updates', requires=[('km', km)], attrs=['#[verifier::loop_isolation(false)]'], ensures=[
            ('updated_objects_replace_removed_keys_gone_nothing_else', f'''final(self).0@ == {rem}({ins}(old(self).0@, updates.updated@, updates.updated@.len() as int),
                    updates.removed@, updates.removed@.len() as int)''')],
            loops={0: {'iter': 'vx_it', 'invariant': [('so_far', f'self.0@ == {ins}(old(self).0@, updates.updated@, vx_it.index@ as int)')]},
                   1: {'iter': 'vx_it', 'invariant': [('so_far', f'''self.0@ == {rem}({ins}(old(self).0@, updates.updated@, updates.updated@.len() as int),
                        updates.removed@, vx_it.index@ as int)''')]}},
            ghost=[(('loop_end', 0), f'proof {{ reveal_with_fuel({ins}, 2); }}'), (('loop_end', 1), f'proof {{ reveal_with_fuel({rem}, 2); }}')])
    U.impl('impl BgpSecCertificates', [fn(BG, 'BgpSecCertificates', 'obeys_key_model::<BgpSecAsnKey>()', 'b_ins', 'b_rem')])
    U.impl('impl AspaObjects', [fn(AS, 'AspaObjects', 'obeys_key_model::<CustomerAsn>()', 'a_ins', 'a_rem')])
    return U
