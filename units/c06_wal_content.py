"""C06 (repository content log): the revision law that unit c06_wal assumes of every write-ahead-logged type, for the repository
content: RepositoryContent::apply applies the changes of a set to the RRDP state in the order in which they are stored and raises
the revision by exactly one; `revision` reports the field."""
from vxlib import Unit
from units import prelude

CT = 'src/server/pubd/content.rs'

OUT = '''
pub struct WalSet<T> { pub changes: Vec<RepositoryContentChange>, pub ph: std::marker::PhantomData<T> }
impl<T> WalSet<T> { pub fn into_changes(self) -> Vec<RepositoryContentChange> { self.changes } }
impl RrdpServer {
    pub fn apply_session_reset(&mut self, _r: RrdpSessionReset) { unimplemented!() }
    pub fn apply_rrdp_updated(&mut self, _u: RrdpUpdated) { unimplemented!() }
    pub fn apply_rrdp_staged(&mut self, _p: PublisherHandle, _d: DeltaElements) { unimplemented!() }
    pub fn apply_publisher_added(&mut self, _p: PublisherHandle) { unimplemented!() }
    pub fn apply_publisher_removed(&mut self, _p: &PublisherHandle) { unimplemented!() }
}
'''

SPEC = r'''
#[verifier::external_type_specification] #[verifier::reject_recursive_types(T)] pub struct ExWalSet<T>(WalSet<T>);
pub assume_specification<T> [WalSet::<T>::into_changes] (s: WalSet<T>) -> (r: Vec<RepositoryContentChange>) ensures r == s.changes;
/// the RRDP state after one stored change (the apply_* steps of RrdpServer are verified in units c11_update / c11_rrdp / c10_staged)
pub uninterp spec fn rrdp_after(r: RrdpServer, c: RepositoryContentChange) -> RrdpServer;
pub assume_specification [RrdpServer::apply_session_reset] (s: &mut RrdpServer, r: RrdpSessionReset) ensures *final(s) == rrdp_after(*old(s), RepositoryContentChange::SessionReset { reset: r });
pub assume_specification [RrdpServer::apply_rrdp_updated] (s: &mut RrdpServer, u: RrdpUpdated) ensures *final(s) == rrdp_after(*old(s), RepositoryContentChange::RrdpUpdated { update: u });
pub assume_specification [RrdpServer::apply_rrdp_staged] (s: &mut RrdpServer, p: PublisherHandle, d: DeltaElements) ensures *final(s) == rrdp_after(*old(s), RepositoryContentChange::RrdpDeltaStaged { publisher: p, delta: d });
pub assume_specification [RrdpServer::apply_publisher_added] (s: &mut RrdpServer, p: PublisherHandle) ensures *final(s) == rrdp_after(*old(s), RepositoryContentChange::PublisherAdded { publisher: p });
pub assume_specification [RrdpServer::apply_publisher_removed] (s: &mut RrdpServer, p: &PublisherHandle) ensures *final(s) == rrdp_after(*old(s), RepositoryContentChange::PublisherRemoved { publisher: *p });
pub open spec fn rrdp_after_all(r: RrdpServer, cs: Seq<RepositoryContentChange>) -> RrdpServer decreases cs.len() {
    if cs.len() == 0 { r } else { rrdp_after(rrdp_after_all(r, cs.drop_last()), cs.last()) }
}
'''


def build():
    U = Unit('c06_wal_content', 'C06', 'RepositoryContent::apply: the stored changes in stored order, revision + 1 (the revision law assumed by c06_wal)')
    prelude.strings(U)
    for t in ['RrdpServer', 'RrdpSessionReset', 'RrdpUpdated', 'PublisherHandle', 'DeltaElements', 'RsyncdStore']:
        U.opaque(t, '')
    U.enum(CT, 'RepositoryContentChange', derive=[])
    U.struct(CT, 'RepositoryContent', derive=[])
    U.outside(OUT)
    U.add(SPEC)
    U.impl('impl RepositoryContent', [
        U.fn(CT, 'RepositoryContent', 'revision', trait='WalSupport', as_inherent=True, ensures=[('is_the_field', 'r == self.revision')]),
        U.fn(CT, 'RepositoryContent', 'apply', trait='WalSupport', as_inherent=True,
             requires=[('not_at_the_end_of_u64', 'old(self).revision < u64::MAX')],
             ensures=[('revision_plus_one', 'final(self).revision == old(self).revision + 1'),
                      ('changes_applied_in_stored_order', 'final(self).rrdp == rrdp_after_all(old(self).rrdp, set.changes@)')],
             loops={0: {'iter': 'vx_it', 'invariant': [
                 ('seq', 'vx_it.seq() == set.changes@'),
                 ('so_far', 'self.rrdp == rrdp_after_all(old(self).rrdp, set.changes@.take(vx_it.index@ as int)) && self.revision == old(self).revision')]}},
             ghost=[(('loop_start', 0), 'proof { assert(set.changes@.take(vx_it.index@ as int + 1).drop_last() == set.changes@.take(vx_it.index@ as int)); assert(@LV0@ == set.changes@[vx_it.index@ as int]); }'),
                    (('after_loop', 0), 'proof { assert(set.changes@.take(set.changes@.len() as int) == set.changes@); }')]),
    ])
    return U
