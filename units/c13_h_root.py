from units.c13_handlers import build_file


def extra(U):
    U.outside('''
pub mod fs { pub fn read(_p: &std::path::PathBuf) -> Result<Vec<u8>, ()> { unimplemented!() } }
pub struct Asset { pub path: &'static str, pub media_type: &'static [u8], pub content: &'static [u8] }
impl HttpResponse {
    pub fn found(_s: &str) -> Self { unimplemented!() }
    pub fn rfc8181(_b: Bytes) -> Self { unimplemented!() }
    pub fn rfc6492(_b: Bytes) -> Self { unimplemented!() }
    pub fn cert(_b: Bytes) -> Self { unimplemented!() }
    pub fn xml_with_cache(_b: Vec<u8>, _s: u32) -> Self { unimplemented!() }
    pub fn ok_with_body(_m: &'static [u8], _c: &'static [u8]) -> Self { unimplemented!() }
}
''')
    U.add('''
pub assume_specification [fs::read] (p: &std::path::PathBuf) -> (r: Result<Vec<u8>, ()>);
pub assume_specification [HttpResponse::found] (s: &str) -> (r: HttpResponse);
pub assume_specification [HttpResponse::rfc8181] (b: Bytes) -> (r: HttpResponse);
pub assume_specification [HttpResponse::rfc6492] (b: Bytes) -> (r: HttpResponse);
pub assume_specification [HttpResponse::cert] (b: Bytes) -> (r: HttpResponse);
pub assume_specification [HttpResponse::xml_with_cache] (b: Vec<u8>, s: u32) -> (r: HttpResponse);
pub assume_specification [HttpResponse::ok_with_body] (m: &'static [u8], c: &'static [u8]) -> (r: HttpResponse);
''')


def build():
    # ui / assets serve compiled-in static files (include! of a build artefact): signature only
    return build_file('root.rs', 'c13_h_root', 'top-level routes: only protocol, repository, TA download, health and UI endpoints reach the facade without credentials',
                      skip=('ui', 'assets'), extra=extra)
