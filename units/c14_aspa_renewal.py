"""C14: AspaObjects::create_renewal -- every ASPA object that expires before the renewal threshold (every object when no
threshold is given) is re-issued for its own definition; no other object is touched and nothing is removed."""
from vxlib import Unit
from units import prelude

ASPA = 'src/server/ca/aspa.rs'

SPEC = r'''
pub uninterp spec fn time_cmp(a: Time, b: Time) -> Option<std::cmp::Ordering>;
impl vstd::std_specs::cmp::PartialOrdSpecImpl for Time {
    open spec fn obeys_partial_cmp_spec() -> bool { true }
    open spec fn partial_cmp_spec(&self, other: &Time) -> Option<std::cmp::Ordering> { time_cmp(*self, *other) }
}
impl vstd::std_specs::cmp::PartialEqSpecImpl for Time {
    open spec fn obeys_eq_spec() -> bool { false }
    open spec fn eq_spec(&self, other: &Time) -> bool { true }
}
pub assume_specification [<Time as PartialOrd>::partial_cmp] (a: &Time, b: &Time) -> (r: Option<std::cmp::Ordering>) ensures r == time_cmp(*a, *b);
pub assume_specification [<Time as PartialEq>::eq] (a: &Time, b: &Time) -> (r: bool);
pub open spec fn before(a: Time, b: Time) -> bool { time_cmp(a, b) == Some(std::cmp::Ordering::Less) }
pub uninterp spec fn aspa_expires(i: AspaInfo) -> Time;
pub uninterp spec fn aspa_def(i: AspaInfo) -> AspaDefinition;
pub assume_specification [AspaInfo::expires] (i: &AspaInfo) -> (r: Time) ensures r == aspa_expires(*i);
pub assume_specification [AspaInfo::vx_definition_clone] (i: &AspaInfo) -> (r: AspaDefinition) ensures r == aspa_def(*i);
pub assume_specification [AspaObjects::make_aspa] (o: &AspaObjects, d: AspaDefinition, k: &CertifiedKey, t: &IssuanceTimingConfig, s: &KrillSigner) -> (r: KrillResult<AspaInfo>)
    ensures r is Ok ==> aspa_def(r->Ok_0) == d;
pub open spec fn due(th: Option<Time>, i: AspaInfo) -> bool { match th { Some(t) => before(aspa_expires(i), t), None => true } }
/// `x` re-issues some due object of the set
pub open spec fn from_due(m: Map<Asn, AspaInfo>, th: Option<Time>, x: AspaInfo) -> bool {
    exists |v: AspaInfo| #[trigger] m.values().contains(v) && due(th, v) && aspa_def(x) == aspa_def(v)
}
/// the update list re-issues the object `v` (same definition)
pub open spec fn renewed(u: Seq<AspaInfo>, v: AspaInfo) -> bool { exists |i: int| 0 <= i < u.len() && aspa_def(#[trigger] u[i]) == aspa_def(v) }
'''


def build():
    U = Unit('c14_aspa_renewal', 'C14', 'ASPA renewal: every object that is due (all when no threshold) is re-issued for its own definition; nothing else, nothing removed')
    prelude.hashmap(U)
    prelude.strings(U)
    U.opaque('Asn', 'Clone, Copy, PartialEq, Eq, Hash')
    for t in ['CertifiedKey', 'IssuanceTimingConfig', 'KrillSigner', 'Error', 'AspaInfo', 'AspaDefinition']:
        U.opaque(t, '')
    U.outside('''
#[derive(Clone, Copy, PartialEq, PartialOrd)] pub struct Time(pub i64);
pub type KrillResult<T> = Result<T, Error>;
pub type CustomerAsn = Asn;
impl AspaInfo { pub fn expires(&self) -> Time { unimplemented!() } pub fn vx_definition_clone(&self) -> AspaDefinition { unimplemented!() } }
impl AspaObjects { pub fn make_aspa(&self, _d: AspaDefinition, _k: &CertifiedKey, _t: &IssuanceTimingConfig, _s: &KrillSigner) -> KrillResult<AspaInfo> { unimplemented!() } }
''')
    U.add('#[verifier::external_type_specification] #[verifier::external_body] pub struct ExTime(Time);')
    U.struct(ASPA, 'AspaObjects', derive=[])
    U.struct(ASPA, 'AspaObjectsUpdates', derive=[], default_ensures=[('empty', 'r.updated@.len() == 0 && r.removed@.len() == 0')])
    U.add(SPEC)
    km = 'obeys_key_model::<Asn>()'
    U.impl('impl AspaObjects', [
        U.fn(ASPA, 'AspaObjects', 'create_renewal', requires=[('km', km)],
             subst=[('aspa.definition.clone()', 'aspa.vx_definition_clone()', 'R11')],
             closures={0: {'header': '|threshold: Time| -> (o: bool)', 'ensures': 'o == before(aspa_expires(*aspa), threshold)'}},
             ensures=[
                 ('every_due_object_renewed', 'r is Ok ==> forall |v: AspaInfo| #[trigger] self.0@.values().contains(v) && due(renew_threshold, v) ==> renewed(r->Ok_0.updated@, v)'),
                 ('only_due_objects_renewed', 'r is Ok ==> forall |i: int| 0 <= i < r->Ok_0.updated@.len() ==> from_due(self.0@, renew_threshold, #[trigger] r->Ok_0.updated@[i])'),
                 ('nothing_removed', 'r is Ok ==> r->Ok_0.removed@.len() == 0'),
             ],
             loops={0: {'iter': 'vx_it', 'invariant': [
                 ('km', km),
                 ('all', 'vx_it.seq().unref().to_set() == self.0@.values()'),
                 ('due_renewed_or_to_come', '''forall |v: AspaInfo| #[trigger] self.0@.values().contains(v) && due(renew_threshold, v) ==> renewed(updates.updated@, v)
                        || (exists |j: int| vx_it.index@ <= j < vx_it.seq().len() && #[trigger] vx_it.seq().unref()[j] == v)'''),
                 ('only_due', 'forall |i: int| 0 <= i < updates.updated@.len() ==> from_due(self.0@, renew_threshold, #[trigger] updates.updated@[i])'),
                 ('rest', 'updates.removed@.len() == 0'),
             ]}},
             ghost=[
                 (('loop_start', 0), '''let ghost g_u = updates.updated@; let ghost g_i = vx_it.index@ as int;
            proof { assert(*aspa == vx_it.seq().unref()[g_i]); assert(vx_it.seq().unref().to_set().contains(*aspa)); assert(self.0@.values().contains(*aspa)); }'''),
                 (('loop_end', 0), '''proof {
                assert forall |v: AspaInfo| #[trigger] self.0@.values().contains(v) && due(renew_threshold, v) implies renewed(updates.updated@, v)
                        || (exists |j: int| g_i + 1 <= j < vx_it.seq().len() && #[trigger] vx_it.seq().unref()[j] == v) by {
                    if v == *aspa { /*@due_object_is_renewed*/ assert(aspa_def(updates.updated@[g_u.len() as int]) == aspa_def(v)); }
                    else if renewed(g_u, v) { let i = choose |i: int| 0 <= i < g_u.len() && aspa_def(#[trigger] g_u[i]) == aspa_def(v); assert(updates.updated@[i] == g_u[i]); }
                    else { let j = choose |j: int| g_i <= j < vx_it.seq().len() && #[trigger] vx_it.seq().unref()[j] == v; assert(j != g_i); }
                }
                assert forall |i: int| 0 <= i < updates.updated@.len() implies from_due(self.0@, renew_threshold, #[trigger] updates.updated@[i]) by {
                    if i < g_u.len() { assert(updates.updated@[i] == g_u[i]); }
                    else { assert(self.0@.values().contains(*aspa) && due(renew_threshold, *aspa) && aspa_def(updates.updated@[i]) == aspa_def(*aspa)); }
                }
            }'''),
             ]),
    ])
    return U
