"""C20 (session tokens): LoginSessionCache -- a bearer token is turned into a client session only if it is GENUINE: its base64
decoding decrypts under the server's session key and the clear text deserialises to that session; the short-term cache does not
weaken this: sessions are cached under exactly the token they were decoded from (or issued as), looked up and removed under exactly
the presented token, so a cache hit hands out a session only for a token that would have decrypted to it.  The representation
invariant `cache_sound` (every cached entry is genuine under the key) is preserved by every operation (inductive).
The tokio RwLock is read as the borrow it grants (R23, single task); the function stored in `decrypt_fn` is crypt::decrypt (assigned in
LoginSessionCache::new, the only constructor; its contract is verified in unit c20_auth) -- the call through the function pointer is a
tagged substitution (Verus has no function pointer types)."""
from vxlib import Unit
from units import prelude

SES = 'src/daemon/http/auth/session.rs'
ERR = 'src/commons/error.rs'

OUT = '''
use std::sync::Arc;
use std::time::{Duration, SystemTime};
pub struct B64Engine(pub u8);
pub struct DecodeError(pub u8);
impl std::fmt::Display for DecodeError { fn fmt(&self, _f: &mut std::fmt::Formatter) -> std::fmt::Result { Ok(()) } }
impl B64Engine { pub fn decode(&self, _b: &[u8]) -> Result<Vec<u8>, DecodeError> { unimplemented!() } }
pub mod serde_json {
    pub struct Error(pub u8);
    impl std::fmt::Display for Error { fn fmt(&self, _f: &mut std::fmt::Formatter) -> std::fmt::Result { Ok(()) } }
    pub fn from_slice<T>(_b: &[u8]) -> Result<T, Error> { unimplemented!() }
}
pub trait DeserializeOwned {}
impl<T> DeserializeOwned for T {}
pub struct EncryptFn(pub u8);
pub struct DecryptFn(pub u8);
pub fn vx_call_decrypt(_f: &DecryptFn, _key: &[u8], _payload: &[u8]) -> Result<Vec<u8>, ApiAuthError> { unimplemented!() }
impl AsRef<str> for Token { fn as_ref(&self) -> &str { unimplemented!() } }
pub fn vx_token_bytes(_t: &Token) -> &[u8] { unimplemented!() }
pub fn vx_checked_add(_t: SystemTime, _d: Duration) -> Option<SystemTime> { unimplemented!() }
'''

SPEC = r'''
#[verifier::external_type_specification] pub struct ExB64Engine(B64Engine);
/// stands for `base64::engine::general_purpose::STANDARD` (imported by session.rs as BASE64_ENGINE)
pub const BASE64_ENGINE: B64Engine = B64Engine(0);
#[verifier::external_type_specification] #[verifier::external_body] pub struct ExDecodeError(DecodeError);
#[verifier::external_type_specification] #[verifier::external_body] pub struct ExJsonError(serde_json::Error);
#[verifier::external_type_specification] #[verifier::external_body] pub struct ExEncryptFn(EncryptFn);
#[verifier::external_type_specification] #[verifier::external_body] pub struct ExDecryptFn(DecryptFn);
#[verifier::external_type_specification] #[verifier::external_body] pub struct ExSystemTime(SystemTime);
#[verifier::external_trait_specification] pub trait ExDeserializeOwned { type ExternalTraitSpecificationFor: DeserializeOwned; }
pub assume_specification [SystemTime::now] () -> (t: SystemTime);
pub assume_specification [vx_checked_add] (t: SystemTime, d: Duration) -> (r: Option<SystemTime>);

// ---- ASSUMED externals: strict base64 (standard alphabet, canonical padding), AEAD open under the session key, serde_json ----
pub uninterp spec fn str_bytes(s: Seq<char>) -> Seq<u8>;
pub uninterp spec fn b64_strict(b: Seq<u8>) -> Option<Seq<u8>>;
/// crypt::decrypt as a function (contract verified in unit c20_auth: Some(plain) iff the Poly1305 tag verifies)
pub uninterp spec fn decrypt_spec(key: Seq<u8>, payload: Seq<u8>) -> Option<Seq<u8>>;
pub uninterp spec fn json_session<S>(plain: Seq<u8>) -> Option<ClientSession<S>>;
pub assume_specification [<Token as AsRef<str>>::as_ref] (t: &Token) -> (r: &str) ensures r@ == t.0@;
/// `token.as_ref().as_bytes()`: the bytes of the token string (tagged substitution: vstd's own contract for str::as_bytes is not visible here)
pub assume_specification [vx_token_bytes] (t: &Token) -> (b: &[u8]) ensures b@ == str_bytes(t.0@);
pub assume_specification [B64Engine::decode] (e: &B64Engine, b: &[u8]) -> (r: Result<Vec<u8>, DecodeError>)
    ensures match r { Ok(v) => b64_strict(b@) == Some(v@), Err(_) => b64_strict(b@) is None };
pub assume_specification [vx_call_decrypt] (f: &DecryptFn, key: &[u8], payload: &[u8]) -> (r: Result<Vec<u8>, ApiAuthError>)
    ensures match r { Ok(v) => decrypt_spec(key@, payload@) == Some(v@), Err(_) => decrypt_spec(key@, payload@) is None };
pub assume_specification<T> [serde_json::from_slice::<T>] (b: &[u8]) -> (r: Result<T, serde_json::Error>);
/// the one instance used: deserialising a client session
#[verifier::external_body]
pub fn vx_session_from_slice<S>(b: &[u8]) -> (r: Result<ClientSession<S>, serde_json::Error>)
    ensures match r { Ok(s) => json_session::<S>(b@) == Some(s), Err(_) => json_session::<S>(b@) is None }
{ unimplemented!() }

// ---- the statement ----
/// the token is genuine for this session under this key
pub open spec fn genuine<S>(t: Token, key: Seq<u8>, s: ClientSession<S>) -> bool {
    b64_strict(str_bytes(t.0@)) is Some
    && decrypt_spec(key, b64_strict(str_bytes(t.0@))->Some_0) is Some
    && json_session::<S>(decrypt_spec(key, b64_strict(str_bytes(t.0@))->Some_0)->Some_0) == Some(s)
}
/// representation invariant of the cache: every entry is genuine under the key
pub open spec fn cache_sound<S>(c: Map<Token, CachedSession<S>>, key: Seq<u8>) -> bool {
    forall |t: Token| #[trigger] c.contains_key(t) ==> genuine(t, key, c[t].session)
}
'''


def build():
    U = Unit('c20_session', 'C20', 'session cache: a token yields a session only if it is genuine under the session key, cache hits included; entries filed, found and removed under exactly the presented token')
    U.feature('allocator_api', 'sized_hierarchy')
    prelude.hashmap(U, get_mut=False)
    prelude.strings(U)
    U.opaque('NonceState', '')
    U.outside(OUT)
    U.struct('src/api/admin.rs', 'Token', derive=['Clone', 'PartialEq', 'Eq', 'Hash'], structural=False)
    U.enum(ERR, 'ApiAuthError', keep=['ApiInvalidCredentials'], derive=[])
    U.struct('src/daemon/http/auth/crypt.rs', 'CryptState', derive=[])
    U.struct(SES, 'ClientSession', derive=['Clone'])
    U.struct(SES, 'CachedSession', derive=[])
    U.struct(SES, 'LoginSessionCache', derive=[], unlock=['cache'])
    U.add(SPEC)
    km = [('km', 'obeys_key_model::<Token>()')]
    U.impl('impl<S> LoginSessionCache<S>', [
        U.fn(SES, 'LoginSessionCache', 'lookup_session', erase_async=True, unlock=['cache'], requires=km,
             closures={0: {'header': '|item: &CachedSession<S>| -> (o: ClientSession<S>)', 'ensures': 'o == item.session'}},
             ensures=[('the_entry_filed_under_exactly_this_token', '''r == (if self.cache@.contains_key(*token) { Some(self.cache@[*token].session) } else { None::<ClientSession<S>> })''')]),
        U.fn(SES, 'LoginSessionCache', 'cache_session', erase_async=True, mut_self=True, unlock=['cache'], requires=km,
             subst=[('SystemTime::now().checked_add(self.ttl)', 'vx_checked_add(SystemTime::now(), self.ttl)', 'R14')],
             ensures=[('filed_under_exactly_this_token_or_not_at_all', '''final(self).cache@ == old(self).cache@
                    || (final(self).cache@.contains_key(*token) && final(self).cache@[*token].session == session
                        && (forall |t: Token| t != *token ==> (#[trigger] final(self).cache@.contains_key(t) == old(self).cache@.contains_key(t))
                                && (old(self).cache@.contains_key(t) ==> final(self).cache@[t] == old(self).cache@[t])))''')]),
        U.fn(SES, 'LoginSessionCache', 'remove', erase_async=True, mut_self=True, unlock=['cache'], requires=km,
             ensures=[('exactly_this_token_forgotten', 'final(self).cache@ == old(self).cache@.remove(*token)')]),
        U.fn(SES, 'LoginSessionCache', 'decode', erase_async=True, mut_self=True, unlock=['cache'],
             requires=km + [('cache_sound', 'cache_sound(old(self).cache@, key.key@)')],
             subst=[('token.as_ref().as_bytes()', 'vx_token_bytes(&token)', 'R14'),
                    ('(self.decrypt_fn)(&key.key, &bytes)', 'vx_call_decrypt(&self.decrypt_fn, &key.key, &bytes)', 'R14'),
                    ('serde_json::from_slice::<ClientSession<S>>(', 'vx_session_from_slice::<S>(', 'R14')],
             ensures=[
                 ('only_a_genuine_token_yields_a_session', 'r is Ok ==> genuine(token, key.key@, r->Ok_0)'),
                 ('a_token_that_is_neither_cached_nor_genuine_is_refused', '''!old(self).cache@.contains_key(token)
                    && !(exists |s: ClientSession<S>| genuine(token, key.key@, s)) ==> r is Err'''),
                 ('cache_stays_sound', 'cache_sound(final(self).cache@, key.key@)'),
             ]),
    ])
    return U
