"""C06 (snapshot = live state): the predicates that serde uses to LEAVE OUT a field of a stored resource class
(`#[serde(skip_serializing_if = "X::is_empty", default)]` on ResourceClass.roas / aspas / bgpsec_certificates / certificates).  A field
that is left out is read back as `Default::default()`, so the predicate may answer true only for a value that holds nothing at all --
otherwise the snapshot silently loses objects (aggregated ROAs, suspended certificates) that the event log still has, and the state
loaded from the snapshot differs from the live state and from a replay from scratch."""
from vxlib import Unit
from units import prelude

ROA = 'src/server/ca/roa.rs'
ASPA = 'src/server/ca/aspa.rs'
BG = 'src/server/ca/bgpsec.rs'
CH = 'src/server/ca/child.rs'


def build():
    U = Unit('c06_skip_if_empty', 'C06', 'a stored field is left out of the snapshot only when it holds nothing (is_empty == equals the default that is read back)')
    prelude.hashmap(U)
    prelude.strings(U)
    for t in ['RoaPayloadJsonMapKey', 'RoaAggregateKey', 'CustomerAsn', 'BgpSecAsnKey', 'KeyIdentifier']:
        U.opaque(t, 'Clone, Copy, PartialEq, Eq, Hash')
    for t in ['RoaInfo', 'AggregateRoaInfo', 'AspaInfo', 'BgpSecCertInfo', 'IssuedCertificate', 'SuspendedCert']:
        U.opaque(t, '')
    U.struct(ROA, 'Roas', derive=[])
    U.struct(ASPA, 'AspaObjects', derive=[])
    U.struct(BG, 'BgpSecCertificates', derive=[])
    U.struct(CH, 'ChildCertificates', derive=[])
    U.impl('impl Roas', [U.fn(ROA, 'Roas', 'is_empty', requires=[('km', 'obeys_key_model::<RoaPayloadJsonMapKey>() && obeys_key_model::<RoaAggregateKey>()')],
                              ensures=[('left_out_only_when_nothing_is_held', 'r == (self.simple@.len() == 0 && self.aggregate@.len() == 0)')])])
    U.impl('impl AspaObjects', [U.fn(ASPA, 'AspaObjects', 'is_empty', requires=[('km', 'obeys_key_model::<CustomerAsn>()')],
                                     ensures=[('left_out_only_when_nothing_is_held', 'r == (self.0@.len() == 0)')])])
    U.impl('impl BgpSecCertificates', [U.fn(BG, 'BgpSecCertificates', 'is_empty', requires=[('km', 'obeys_key_model::<BgpSecAsnKey>()')],
                                            ensures=[('left_out_only_when_nothing_is_held', 'r == (self.0@.len() == 0)')])])
    U.impl('impl ChildCertificates', [U.fn(CH, 'ChildCertificates', 'is_empty', requires=[('km', 'obeys_key_model::<KeyIdentifier>()')],
                                           ensures=[('left_out_only_when_nothing_is_held', 'r == (self.issued@.len() == 0 && self.suspended@.len() == 0)')])])
    return U
