"""C06 (repository content log): the transaction body of WalStore::execute_opt_command (closure lifted verbatim, R15) against the ghost
model of the key-value transaction of unit c07_command.  For one call running alone: the instance handed back and cached is the stored
snapshot caught up with EVERY stored change set (snapshot + later changes = state in memory); a command's change set is written
under the revision of the caught-up instance, once; `update_snapshot` stores exactly that instance and only then drops change sets, so
that what a fresh store reads afterwards is again the instance in memory."""
from vxlib import Unit
from units import prelude

WAL = 'src/commons/eventsourcing/wal.rs'

OUT = '''
use std::fmt;
use std::sync::Arc;
use std::borrow::Cow;
pub mod storage { pub struct Error(pub u8); }
pub trait Storable: Clone {}
pub trait DeserializeOwned {}
impl<T> DeserializeOwned for T {}
pub trait Serialize {}
impl<T> Serialize for T {}
pub trait WalChange: Clone {}
pub fn vx_exit() -> ! { std::process::exit(1) }
pub fn vx_make_mut<T: Clone>(a: &mut Arc<T>) -> &mut T { Arc::make_mut(a) }
pub fn vx_arc_ref<T>(a: &Arc<T>) -> &T { a.as_ref() }
pub fn vx_is_wal_key(_k: &Ident) -> bool { unimplemented!() }
pub fn vx_summary<C>(_c: &C) -> String { unimplemented!() }
'''

SPEC = r'''
#[verifier::external_type_specification] #[verifier::external_body] pub struct ExStorageError(storage::Error);
#[verifier::external_trait_specification] pub trait ExStorable: Clone { type ExternalTraitSpecificationFor: Storable; }
#[verifier::external_trait_specification] pub trait ExDeserializeOwned { type ExternalTraitSpecificationFor: DeserializeOwned; }
#[verifier::external_trait_specification] pub trait ExSerialize { type ExternalTraitSpecificationFor: Serialize; }
#[verifier::external_trait_specification] pub trait ExWalChange: Clone { type ExternalTraitSpecificationFor: WalChange; }
pub assume_specification [vx_exit] () -> ! ;
pub assume_specification<T: Clone> [vx_make_mut] (a: &mut Arc<T>) -> (r: &mut T) ensures *r == **old(a), **final(a) == *final(r);
pub assume_specification<T> [vx_arc_ref] (a: &Arc<T>) -> (r: &T) ensures *r == **a;
pub assume_specification<T: ?Sized, A: std::alloc::Allocator + Clone> [<Arc<T, A> as Clone>::clone] (a: &Arc<T, A>) -> (r: Arc<T, A>) ensures r == *a;
pub assume_specification<'a, 'b, B: ?Sized + ToOwned> [<Cow<'a, B> as std::ops::Deref>::deref] (c: &'b Cow<'a, B>) -> (r: &'b B);
pub assume_specification<'a, T, A> [<std::boxed::Box<T, A> as std::ops::Deref>::deref] (b: &'a std::boxed::Box<T, A>) -> (r: &'a T)
           where A: std::alloc::Allocator, T: std::marker::MetaSized + ?Sized,
    ensures r == &**b;
pub assume_specification<C> [vx_summary::<C>] (c: &C) -> (r: String);

// ---- ghost model of the key-value transaction (as in unit c07_command; ASSUMED contracts on Transaction) ----
pub struct Blob(pub int);
pub uninterp spec fn blob_of<T>(v: T) -> Blob;
pub uninterp spec fn parse<T>(b: Blob) -> Option<T>;
#[verifier::external_body] pub broadcast proof fn axiom_serde_round_trip<T>(v: T) ensures #[trigger] parse::<T>(blob_of(v)) == Some(v) {}
pub uninterp spec fn kvmap(t: Transaction) -> Map<Ident, Blob>;
/// the key of the change set that takes revision v to v + 1 (wal-<v>.json), the snapshot key; ASSUMED distinct; `is_wal_key` is
/// `key.as_str().starts_with("wal-")` (tagged substitution), ASSUMED to recognise exactly the change-set keys
pub uninterp spec fn wal_key(v: u64) -> Ident;
pub uninterp spec fn snap_key() -> Ident;
pub uninterp spec fn is_wal(k: Ident) -> bool;
#[verifier::external_body] pub broadcast proof fn axiom_keys(v: u64, w: u64)
    ensures #[trigger] wal_key(v) == #[trigger] wal_key(w) ==> v == w, wal_key(v) != snap_key(), is_wal(wal_key(v)), !is_wal(snap_key()) {}
pub assume_specification [vx_is_wal_key] (k: &Ident) -> (r: bool) ensures r == is_wal(*k);
impl Transaction {
    #[verifier::external_body]
    pub fn has(&mut self, scope: Option<&Ident>, key: &Ident) -> (r: Result<bool, storage::Error>)
        ensures *final(self) == *old(self), r is Ok ==> r->Ok_0 == kvmap(*old(self)).contains_key(*key)
    { unimplemented!() }
    #[verifier::external_body]
    pub fn get<T: DeserializeOwned>(&mut self, scope: Option<&Ident>, key: &Ident) -> (r: Result<Option<T>, storage::Error>)
        ensures *final(self) == *old(self),
            r is Ok ==> (r->Ok_0 is Some <==> kvmap(*old(self)).contains_key(*key)),
            r is Ok && r->Ok_0 is Some ==> parse::<T>(kvmap(*old(self))[*key]) == r->Ok_0
    { unimplemented!() }
    #[verifier::external_body]
    pub fn store<T: Serialize>(&mut self, scope: Option<&Ident>, key: &Ident, value: &T) -> (r: Result<(), storage::Error>)
        ensures r is Ok ==> kvmap(*final(self)) == kvmap(*old(self)).insert(*key, blob_of(*value)),
            r is Err ==> kvmap(*final(self)) == kvmap(*old(self))
    { unimplemented!() }
    #[verifier::external_body]
    pub fn delete(&mut self, scope: Option<&Ident>, key: &Ident) -> (r: Result<(), storage::Error>)
        ensures r is Ok ==> kvmap(*final(self)) == kvmap(*old(self)).remove(*key),
            r is Err ==> kvmap(*final(self)) == kvmap(*old(self))
    { unimplemented!() }
    #[verifier::external_body]
    pub fn list_keys(&mut self, scope: Option<&Ident>) -> (r: Result<Vec<Box<Ident>>, storage::Error>)
        ensures *final(self) == *old(self),
            r is Ok ==> forall |k: Ident| kvmap(*old(self)).contains_key(k) <==> exists |i: int| 0 <= i < r->Ok_0@.len() && *#[trigger] r->Ok_0@[i] == k
    { unimplemented!() }
}
'''

TRAIT_SPEC = '''
    /// ghost view of the operations of a write-ahead-logged type
    spec fn rev(&self) -> u64;
    spec fn applied(self, set: WalSet<Self>) -> Self;
'''

VOCAB = r'''
/// ASSUMED law of implementations: applying a change set raises the revision by exactly one
#[verifier::external_body] pub broadcast proof fn axiom_rev_applied<T: WalSupport>(t: T, s: WalSet<T>) ensures t.rev() < u64::MAX ==> #[trigger] t.applied(s).rev() == t.rev() + 1 {}
pub open spec fn stored_set<T: WalSupport>(m: Map<Ident, Blob>, v: u64) -> Option<WalSet<T>> {
    if m.contains_key(wal_key(v)) { parse::<WalSet<T>>(m[wal_key(v)]) } else { None }
}
/// `t` caught up with n stored change sets
pub open spec fn catch_up<T: WalSupport>(t: T, m: Map<Ident, Blob>, n: nat) -> T decreases n {
    if n == 0 { t } else { match stored_set::<T>(m, t.rev()) { Some(s) => catch_up(t.applied(s), m, (n - 1) as nat), None => t } }
}
pub open spec fn caught_up<T: WalSupport>(t: T, m: Map<Ident, Blob>) -> bool { !m.contains_key(wal_key(t.rev())) }
/// t is reached from s0 by exactly n stored change sets
pub open spec fn reaches<T: WalSupport>(s0: T, m: Map<Ident, Blob>, n: nat, t: T) -> bool { t == catch_up(s0, m, n) && t.rev() == s0.rev() + n }
/// an instance on the way from the stored snapshot to the stored state (a cache entry may lag behind)
pub open spec fn on_replay_path<T: WalSupport>(t: T, m: Map<Ident, Blob>) -> bool {
    m.contains_key(snap_key()) && parse::<T>(m[snap_key()]) is Some
    && exists |n: nat| #[trigger] reaches(parse::<T>(m[snap_key()])->Some_0, m, n, t)
}
/// what a fresh store reads: the stored snapshot caught up with every change set (if that is `t`)
pub open spec fn is_stored_state<T: WalSupport>(t: T, m: Map<Ident, Blob>) -> bool { on_replay_path(t, m) && caught_up(t, m) }
pub open spec fn revisions_bounded<T: WalSupport>(m: Map<Ident, Blob>) -> bool {
    (forall |v: u64| #[trigger] m.contains_key(wal_key(v)) ==> v < 0xffff_ffff_ffff_0000)
    && (m.contains_key(snap_key()) && parse::<T>(m[snap_key()]) is Some ==> parse::<T>(m[snap_key()])->Some_0.rev() <= 0xffff_ffff_ffff_0000)
}
/// no change set is stored beyond a missing one (counted from the stored snapshot): sets are only ever written at the caught-up revision
pub open spec fn gap_free<T: WalSupport>(m: Map<Ident, Blob>) -> bool {
    m.contains_key(snap_key()) && parse::<T>(m[snap_key()]) is Some ==>
        forall |w: u64, u: u64| #![trigger m.contains_key(wal_key(w)), m.contains_key(wal_key(u))]
            m.contains_key(wal_key(w)) && parse::<T>(m[snap_key()])->Some_0.rev() <= u < w ==> m.contains_key(wal_key(u))
}
pub open spec fn wal_inv<T: WalSupport>(cache: Map<MyHandle, Arc<T>>, m: Map<Ident, Blob>, h: MyHandle) -> bool {
    revisions_bounded::<T>(m) && gap_free::<T>(m) && (cache.contains_key(h) ==> on_replay_path(*cache[h], m))
}
/// every key used by a tight catch-up is in the log
pub proof fn lemma_all_keys<T: WalSupport>(s0: T, m: Map<Ident, Blob>, n: nat, u: u64)
    requires keys_bounded(m), catch_up(s0, m, n).rev() == s0.rev() + n, s0.rev() <= u < s0.rev() + n
    ensures m.contains_key(wal_key(u))
    decreases n
{
    broadcast use axiom_rev_applied;
    if n > 0 { match stored_set::<T>(m, s0.rev()) {
        Some(s1) => { assert(m.contains_key(wal_key(s0.rev()))); if u > s0.rev() { lemma_all_keys(s0.applied(s1), m, (n - 1) as nat, u); } },
        None => { assert(catch_up(s0, m, n) == s0); } } }
}
pub open spec fn keys_bounded(m: Map<Ident, Blob>) -> bool { forall |v: u64| #[trigger] m.contains_key(wal_key(v)) ==> v < 0xffff_ffff_ffff_0000 }
pub proof fn lemma_rev_catch_up<T: WalSupport>(s0: T, m: Map<Ident, Blob>, n: nat)
    requires keys_bounded(m)
    ensures catch_up(s0, m, n).rev() >= s0.rev(), catch_up(s0, m, n).rev() <= s0.rev() + n
    decreases n
{
    broadcast use axiom_rev_applied;
    if n > 0 { match stored_set::<T>(m, s0.rev()) { Some(st) => { assert(m.contains_key(wal_key(s0.rev()))); lemma_rev_catch_up(s0.applied(st), m, (n - 1) as nat); }, None => {} } }
}
pub proof fn lemma_last_key<T: WalSupport>(s0: T, m: Map<Ident, Blob>, n: nat)
    requires keys_bounded(m), n >= 1, catch_up(s0, m, n).rev() == s0.rev() + n
    ensures m.contains_key(wal_key((s0.rev() + n - 1) as u64))
    decreases n
{
    broadcast use axiom_rev_applied;
    match stored_set::<T>(m, s0.rev()) {
        Some(s1) => { assert(m.contains_key(wal_key(s0.rev()))); if n > 1 { lemma_last_key(s0.applied(s1), m, (n - 1) as nat); } },
        None => { assert(catch_up(s0, m, n) == s0); }
    }
}
/// one more stored change set applied to a caught-up-by-n instance is the caught-up-by-(n+1) instance
pub proof fn lemma_catch_up_step<T: WalSupport>(s0: T, m: Map<Ident, Blob>, n: nat, st: WalSet<T>)
    requires stored_set::<T>(m, catch_up(s0, m, n).rev()) == Some(st)
    ensures catch_up(s0, m, n + 1) == catch_up(s0, m, n).applied(st)
    decreases n
{
    if n == 0 { assert(catch_up(s0, m, 1) == catch_up(s0.applied(st), m, 0)); }
    else { match stored_set::<T>(m, s0.rev()) {
        Some(s1) => { lemma_catch_up_step(s0.applied(s1), m, (n - 1) as nat, st); },
        None => { assert(catch_up(s0, m, n) == s0); assert(false); } } }
}
/// a record written at or beyond the revision reached does not change the catch-up so far
pub proof fn lemma_catch_up_frame<T: WalSupport>(s0: T, m: Map<Ident, Blob>, n: nat, v: u64, b: Blob)
    requires keys_bounded(m), !m.contains_key(wal_key(v)), catch_up(s0, m, n).rev() <= v, catch_up(s0, m, n).rev() == s0.rev() + n
    ensures catch_up(s0, m.insert(wal_key(v), b), n) == catch_up(s0, m, n)
    decreases n
{
    broadcast use axiom_keys, axiom_rev_applied;
    let m1 = m.insert(wal_key(v), b);
    if n > 0 {
        match stored_set::<T>(m, s0.rev()) {
            Some(s1) => {
                assert(s0.rev() != v) by { if s0.rev() == v { assert(m.contains_key(wal_key(v))); } }
                assert(stored_set::<T>(m1, s0.rev()) == Some(s1));
                assert(m.contains_key(wal_key(s0.rev())));
                lemma_catch_up_frame(s0.applied(s1), m, (n - 1) as nat, v, b);
            },
            None => {
                // the catch-up stops at s0: s0.rev() <= v; if s0.rev() == v the new record would be read -- excluded by the caller (n steps reach rev <= v with s0 stuck means catch_up == s0)
                assert(catch_up(s0, m, n) == s0);
            }
        }
    }
}
'''


def build():
    U = Unit('c06_wal', 'C06', 'repository content log: the instance handed back is the stored snapshot caught up with every stored change set; a change set is written once under the revision of the caught-up instance; update_snapshot stores that instance before it drops change sets')
    U.feature('allocator_api', 'sized_hierarchy')
    prelude.strings(U)
    prelude.hashmap(U)
    U.opaque('MyHandle', 'Clone, PartialEq, Eq, Hash')
    for t in ['KeyValueStore', 'Transaction', 'KeyValueError']:
        U.opaque(t, '')
    U.opaque('Ident', 'Clone')
    U.outside(OUT)
    U.add(SPEC)
    U.enum(WAL, 'WalStoreError', keep=['Unknown'], derive=[])
    U.struct(WAL, 'WalSet', derive=['Clone'])
    U.trait(WAL, 'WalCommand', subst=[('Clone + fmt::Display', 'Clone', 'R4')])
    U.trait(WAL, 'WalSupport', spec=TRAIT_SPEC, methods={
        'revision': [('is_rev', 'r == self.rev()')],
        'apply': [('is_applied', '*final(self) == old(self).applied(set)')],
    }, subst=[('std::error::Error + From<WalStoreError>', 'std::fmt::Display + From<WalStoreError>', 'R4')])
    U.struct(WAL, 'WalStore', derive=[], unlock=['cache'])
    U.add(VOCAB)
    km = [('km', 'obeys_key_model::<MyHandle>()')]
    U.impl('impl<T: WalSupport> WalStore<T>', [
        U.fn(WAL, 'WalStore', 'cache_get', unlock=['cache'], requires=km, ensures=[
            ('the_cached_instance', 'r == (if self.cache@.contains_key(*id) { Some(self.cache@[*id]) } else { None::<Arc<T>> })')]),
        U.fn(WAL, 'WalStore', 'cache_update', mut_self=True, unlock=['cache'], requires=km, ensures=[
            ('only_this_instance_replaced', 'final(self).cache@ == old(self).cache@.insert(*id, arc)')]),
        U.fn(WAL, 'WalStore', 'key_for_snapshot', external_body=True, ensures=[('names', '*r == snap_key()')]),
        U.fn(WAL, 'WalStore', 'key_for_wal_set', external_body=True, ensures=[('names', '*r == wal_key(revision)')]),
        U.closure_fn(WAL, 'WalStore', 'execute_opt_command', 0, 'vx_wal_tx',
                     "(&mut self, kv: &mut Transaction, handle: &MyHandle, scope: Cow<'_, Ident>, cmd_opt: Option<T::Command>, save_snapshot: bool) -> (r: Result<Result<Arc<T>, T::Error>, storage::Error>)",
                     attrs=['#[verifier::exec_allows_no_decreases_clause]'],
                     subst=[('std::process::exit(1);', 'vx_exit();', 'R14'), ('Arc::make_mut(', 'vx_make_mut(', 'R14', 'all'), ('latest.as_ref()', 'vx_arc_ref(&latest)', 'R14'),
                            ('key.as_str().starts_with("wal-")', 'vx_is_wal_key(&key)', 'R14'), ('command.to_string()', 'vx_summary(&command)', 'R14')],
                     requires=km + [
                         ('store_coherent_with_its_log', 'wal_inv::<T>(old(self).cache@, kvmap(*old(kv)), *handle)'),
                         ('snapshot_requests_carry_no_command', 'save_snapshot ==> cmd_opt is None'),
                         ('log_not_full', '''!kvmap(*old(kv)).contains_key(wal_key(0xffff_ffff_fffe_ffff))
                            && (kvmap(*old(kv)).contains_key(snap_key()) && parse::<T>(kvmap(*old(kv))[snap_key()]) is Some ==> parse::<T>(kvmap(*old(kv))[snap_key()])->Some_0.rev() < 0xffff_ffff_ffff_0000)''')],
                     ensures=[
                         ('the_instance_handed_back_is_what_a_fresh_store_reads', 'r is Ok && r->Ok_0 is Ok ==> is_stored_state(*r->Ok_0->Ok_0, kvmap(*final(kv)))'),
                         ('store_stays_coherent_with_its_log', 'wal_inv::<T>(final(self).cache@, kvmap(*final(kv)), *handle)'),
                         ('a_read_leaves_no_trace', 'cmd_opt is None && !save_snapshot ==> kvmap(*final(kv)) == kvmap(*old(kv))'),
                     ],
                     ghost_start='broadcast use axiom_keys, axiom_serde_round_trip, axiom_rev_applied;\n',
                     loops={0: {'invariant': [
                                   ('log_and_cache_untouched_while_catching_up', 'kvmap(*kv) == kvmap(*old(kv)) && self.cache@ == old(self).cache@ && wal_inv::<T>(old(self).cache@, kvmap(*old(kv)), *handle)'),
                                   ('instance_is_on_the_replay_path', 'on_replay_path(*latest_inner, kvmap(*kv))'),
                                   ('untouched_instance_is_the_cached_one', '!changed_from_cached ==> *latest_inner == *vx_orig && old(self).cache@.contains_key(*handle) && *old(self).cache@[*handle] == *vx_orig')],
                                'ensures': [('nothing_left_to_replay', 'caught_up(*latest_inner, kvmap(*kv))')]},
                            1: {'iter': 'vx_it', 'invariant': [
                                   ('cache_holds_the_instance', 'self.cache@.contains_key(*handle) && *self.cache@[*handle] == *latest'),
                                   ('new_snapshot_stays', 'kvmap(*kv).contains_key(snap_key()) && kvmap(*kv)[snap_key()] == vx_m3[snap_key()] && parse::<T>(vx_m3[snap_key()]) == Some(*latest)'),
                                   ('only_removals', 'forall |k: Ident| #[trigger] kvmap(*kv).contains_key(k) ==> vx_m3.contains_key(k)'),
                                   ('no_set_at_or_beyond_the_snapshot', 'forall |w: u64| w >= latest.rev() ==> !#[trigger] vx_m3.contains_key(wal_key(w))'),
                                   ('bounds', 'latest.rev() <= 0xffff_ffff_ffff_0000 && keys_bounded(vx_m3) && save_snapshot && cmd_opt is None')]}},
                     ghost=[
                         (('before', 'let latest_inner = Arc::make_mut(&mut latest);', 0), '''proof {
    let m = kvmap(*kv);
    if !old(self).cache@.contains_key(*handle) { let s0 = parse::<T>(m[snap_key()])->Some_0; assert(reaches(s0, m, 0, *latest)); }
    assert(on_replay_path(*latest, m));
}
let ghost vx_orig = latest;'''),
                         (('loop_start', 0), 'let ghost vx_t0 = *latest_inner; broadcast use axiom_keys, axiom_serde_round_trip, axiom_rev_applied;'),
                         (('after', 'latest_inner.apply(value);', 0), '''proof {
    let m = kvmap(*kv); let s0 = parse::<T>(m[snap_key()])->Some_0;
    let n = choose |n: nat| reaches(s0, m, n, vx_t0);
    assert(m.contains_key(wal_key(vx_t0.rev())));
    assert(stored_set::<T>(m, vx_t0.rev()) == Some(value));
    lemma_catch_up_step(s0, m, n, value);
    assert(reaches(s0, m, n + 1, *latest_inner));
}'''),
                         (('after', 'let revision = latest_inner.revision();', 0), 'let ghost vx_t1 = *latest_inner; let ghost vx_m1 = kvmap(*kv);'),
                         (('after', 'Some(&scope), &key_for_wal_set, &set\n                                )?;', 0), '''proof {
    broadcast use axiom_keys, axiom_serde_round_trip, axiom_rev_applied;
    let s0 = parse::<T>(vx_m1[snap_key()])->Some_0;
    let n = choose |n: nat| reaches(s0, vx_m1, n, vx_t1);
    let m1 = kvmap(*kv);
    assert(m1 == vx_m1.insert(wal_key(revision), blob_of(set)));
    assert(m1.contains_key(snap_key()) && m1[snap_key()] == vx_m1[snap_key()]);
    assert(revision < 0xffff_ffff_ffff_0000) by {
        if n == 0 { } else { lemma_rev_catch_up(s0, vx_m1, n); assert(vx_m1.contains_key(wal_key((revision - 1) as u64))) by { lemma_last_key(s0, vx_m1, n); } if revision >= 0xffff_ffff_ffff_0000 { assert(vx_m1.contains_key(wal_key(0xffff_ffff_fffe_ffff))); } }
    }
    lemma_catch_up_frame(s0, vx_m1, n, revision, blob_of(set));
    assert(stored_set::<T>(m1, revision) == Some(set));
    lemma_catch_up_step(s0, m1, n, set);
    assert(reaches(s0, m1, n + 1, *latest_inner));
    assert(on_replay_path(*latest_inner, m1));
    assert(revisions_bounded::<T>(m1));
    assert(!m1.contains_key(wal_key((revision + 1) as u64))) by {
        if vx_m1.contains_key(wal_key((revision + 1) as u64)) { lemma_rev_catch_up(s0, vx_m1, n); assert(vx_m1.contains_key(wal_key(revision))); }
    }
    assert(gap_free::<T>(m1)) by {
        assert forall |w: u64, u: u64| #![trigger m1.contains_key(wal_key(w)), m1.contains_key(wal_key(u))]
            m1.contains_key(wal_key(w)) && s0.rev() <= u < w implies m1.contains_key(wal_key(u)) by {
            if w == revision { if u != revision { lemma_all_keys(s0, vx_m1, n, u); } }
            else { assert(vx_m1.contains_key(wal_key(w))); if u != revision { assert(vx_m1.contains_key(wal_key(u))); } }
        }
    }
}'''),
                         (('before', 'if changed_from_cached {', 0), '''proof {
    let m = kvmap(*kv);
    /*@only_the_stored_state_goes_into_the_cache*/ assert(on_replay_path(*latest, m) && caught_up(*latest, m));
    assert(revisions_bounded::<T>(m) && gap_free::<T>(m));
    assert(!changed_from_cached ==> m == kvmap(*old(kv)) && self.cache@.contains_key(*handle) && *self.cache@[*handle] == *latest);
}'''),
                         (('before', 'if save_snapshot {', 0), '''let ghost vx_m2 = kvmap(*kv);
proof { assert(self.cache@.contains_key(*handle) && *self.cache@[*handle] == *latest); assert(wal_inv::<T>(self.cache@, vx_m2, *handle)); }'''),
                         (('before', 'for key in kv.list_keys(Some(&scope))? {', 0), '''let ghost vx_m3 = kvmap(*kv);
proof {
    broadcast use axiom_keys, axiom_serde_round_trip, axiom_rev_applied;
    let s0 = parse::<T>(vx_m2[snap_key()])->Some_0;
    let n = choose |n: nat| reaches(s0, vx_m2, n, *latest);
    /*@the_snapshot_written_is_the_instance_in_memory*/ assert(vx_m3 == vx_m2.insert(snap_key(), blob_of(*latest)));
    assert(parse::<T>(vx_m3[snap_key()]) == Some(*latest));
    assert(reaches(*latest, vx_m3, 0, *latest));
    assert(latest.rev() <= 0xffff_ffff_ffff_0000) by { lemma_rev_catch_up(s0, vx_m2, n); if n >= 1 { lemma_last_key(s0, vx_m2, n); } }
    assert forall |w: u64| w >= latest.rev() implies !#[trigger] vx_m3.contains_key(wal_key(w)) by {
        if vx_m3.contains_key(wal_key(w)) { assert(vx_m2.contains_key(wal_key(w))); lemma_rev_catch_up(s0, vx_m2, n); if w > latest.rev() { assert(vx_m2.contains_key(wal_key(latest.rev()))); } }
    }
}'''),
                         (('loop_start', 1), '''proof { broadcast use axiom_keys, axiom_serde_round_trip, axiom_rev_applied;
    let m = kvmap(*kv);
    assert(reaches(*latest, m, 0, *latest));
    assert(wal_inv::<T>(self.cache@, m, *handle));
}'''),
                         (('after_loop', 1), '''proof { broadcast use axiom_keys, axiom_serde_round_trip, axiom_rev_applied;
    let m = kvmap(*kv);
    assert(reaches(*latest, m, 0, *latest));
    assert(!m.contains_key(wal_key(latest.rev()))) by { if m.contains_key(wal_key(latest.rev())) { assert(vx_m3.contains_key(wal_key(latest.rev()))); } }
    assert(is_stored_state(*latest, m));
    assert(wal_inv::<T>(self.cache@, m, *handle));
}'''),
                         (('before', 'Ok(Ok(latest))', 0), 'proof { assert(is_stored_state(*latest, kvmap(*kv))); assert(wal_inv::<T>(self.cache@, kvmap(*kv), *handle)); }'),
                     ]),
    ])
    return U
