from units.c13_handlers import build_file
from units import prelude


def extra(U):
    U.outside('use vstd::std_specs::hash::*;')
    U.struct('src/api/ca.rs', 'AllCertAuthIssues', derive=[], default_ensures=[('any', 'true')])
    U.outside('''
impl std::hash::Hash for CaHandle { fn hash<H: std::hash::Hasher>(&self, _s: &mut H) { unimplemented!() } }
impl PartialEq for CaHandle { fn eq(&self, _o: &Self) -> bool { unimplemented!() } }
impl Eq for CaHandle {}
impl CertAuthIssues { pub fn is_empty(&self) -> bool { unimplemented!() } }
''')
    U.add('pub assume_specification [CertAuthIssues::is_empty] (x: &CertAuthIssues) -> (r: bool);')


def build():
    return build_file('bulk.rs', 'c13_h_bulk', 'route table /api/v1/bulk/**: bulk operations need ca-admin; the issues listing consults the caller\'s role per CA',
                      skip=(), extra=extra, no_isolation=('cas_issues',))
