"""C09: Queue::schedule_task -- the transaction body (closure lifted verbatim, R15) against a ghost model of the key-value
transaction: after scheduling, the task is pending exactly once at the time the mode prescribes; `soonest` modes keep the
earlier of the two times; `finish` modes remove the running entry; IfMissing never replaces anything."""
from vxlib import Unit
from units import prelude

Q = 'src/commons/queue.rs'

SPEC = r'''
// ---- ghost model of a key-value transaction restricted to the two queue scopes (ASSUMED contracts on Transaction) ----
pub uninterp spec fn pending(t: Transaction) -> Set<Ident>;      // storage keys in scope "pending"
pub uninterp spec fn running(t: Transaction) -> Set<Ident>;      // storage keys in scope "running"
pub uninterp spec fn is_pending_scope(s: Option<&Ident>) -> bool;
pub uninterp spec fn is_running_scope(s: Option<&Ident>) -> bool;
/// storage key <-> (timestamp, task name); task_storage_key / split_storage_key are assumed to be inverse (format!/parse)
pub uninterp spec fn key_name(k: Ident) -> Ident;
pub uninterp spec fn key_ts(k: Ident) -> u128;
/// the key parses as <timestamp>-<name>
pub uninterp spec fn key_valid(k: Ident) -> bool;
#[verifier::external_body] pub proof fn axiom_scopes_differ(s: Option<&Ident>) ensures !(is_pending_scope(s) && is_running_scope(s)) {}
impl Transaction {
    #[verifier::external_body]
    pub fn delete(&mut self, scope: Option<&Ident>, key: &Ident) -> (r: Result<(), KeyValueError>)
        ensures
            r is Ok && is_pending_scope(scope) ==> pending(*final(self)) == pending(*old(self)).remove(*key) && running(*final(self)) == running(*old(self)),
            r is Ok && is_running_scope(scope) ==> running(*final(self)) == running(*old(self)).remove(*key) && pending(*final(self)) == pending(*old(self)),
    { unimplemented!() }
    #[verifier::external_body]
    pub fn has(&mut self, scope: Option<&Ident>, key: &Ident) -> (r: Result<bool, KeyValueError>)
        ensures *final(self) == *old(self),
            r is Ok && is_running_scope(scope) ==> r->Ok_0 == running(*old(self)).contains(*key),
            r is Ok && is_pending_scope(scope) ==> r->Ok_0 == pending(*old(self)).contains(*key),
    { unimplemented!() }
    #[verifier::external_body]
    pub fn move_value(&mut self, from_scope: Option<&Ident>, from_key: &Ident, to_scope: Option<&Ident>, to_key: &Ident) -> (r: Result<(), KeyValueError>)
        ensures
            r is Ok && is_running_scope(from_scope) && is_pending_scope(to_scope) ==> running(*final(self)) == running(*old(self)).remove(*from_key) && pending(*final(self)) == pending(*old(self)).insert(*to_key),
            r is Err ==> running(*final(self)) == running(*old(self)) && pending(*final(self)) == pending(*old(self)),
    { unimplemented!() }
    #[verifier::external_body]
    pub fn store(&mut self, scope: Option<&Ident>, key: &Ident, value: &Value) -> (r: Result<(), KeyValueError>)
        ensures
            r is Ok && is_pending_scope(scope) ==> pending(*final(self)) == pending(*old(self)).insert(*key) && running(*final(self)) == running(*old(self)),
            r is Ok && is_running_scope(scope) ==> running(*final(self)) == running(*old(self)).insert(*key) && pending(*final(self)) == pending(*old(self)),
    { unimplemented!() }
}
pub uninterp spec fn min_spec<T>(a: T, b: T) -> T;
pub assume_specification<T: Ord> [std::cmp::min::<T>] (a: T, b: T) -> (r: T) ensures r == min_spec(a, b);
/// ASSUMED: std::cmp::min on u128 is the numeric minimum
pub broadcast axiom fn axiom_min_u128(a: u128, b: u128) ensures #[trigger] min_spec::<u128>(a, b) == (if a <= b { a } else { b });

// ---- statement-level vocabulary ----
/// the task `name` is pending at time `ts`
pub open spec fn pending_at(t: Transaction, name: Ident, ts: u128) -> bool {
    exists |k: Ident| pending(t).contains(k) && #[trigger] key_name(k) == name && key_ts(k) == ts
}
pub open spec fn has_pending(t: Transaction, name: Ident) -> bool { exists |k: Ident| pending(t).contains(k) && #[trigger] key_name(k) == name }
pub open spec fn has_running(t: Transaction, name: Ident) -> bool { exists |k: Ident| running(t).contains(k) && #[trigger] key_name(k) == name }
/// at most one entry per task name in each scope (what the queue maintains for the names it schedules)
pub open spec fn uniq(s: Set<Ident>, name: Ident) -> bool {
    forall |a: Ident, b: Ident| #![trigger s.contains(a), s.contains(b)] s.contains(a) && s.contains(b) && key_name(a) == name && key_name(b) == name ==> a == b
}
/// the time of the (unique) pending entry of `name`, if any
pub open spec fn pending_ts(t: Transaction, name: Ident) -> Option<u128> {
    if has_pending(t, name) { Some(key_ts(choose |k: Ident| pending(t).contains(k) && #[trigger] key_name(k) == name)) } else { None }
}
pub open spec fn min128(a: u128, b: u128) -> u128 { if a <= b { a } else { b } }
/// entries of other tasks are untouched
pub open spec fn others_untouched(a: Transaction, b: Transaction, name: Ident) -> bool {
    &&& forall |k: Ident| key_name(k) != name ==> (#[trigger] pending(a).contains(k) <==> pending(b).contains(k))
    &&& forall |k: Ident| key_name(k) != name ==> (#[trigger] running(a).contains(k) <==> running(b).contains(k))
}
'''


def build():
    U = Unit('c09_queue', 'C09', 'Queue::schedule_task transaction body: pending exactly once at the prescribed time; soonest modes keep the earlier time; finish modes drop the running entry')
    prelude.strings(U)
    U.opaque('Ident', 'PartialEq')
    U.opaque('Transaction', '')
    U.opaque('KeyValueError', '')
    U.opaque('KeyValueStore', '')
    U.opaque('Value', '')
    U.opaque('Error', '')
    U.outside('pub mod serde_json { pub use super::Value; }\nuse std::cmp;\nimpl Error { pub fn other(_s: String) -> Self { unimplemented!() } }')
    U.add('pub assume_specification [Error::other] (s: String) -> (r: Error);')
    U.struct(Q, 'Queue', derive=[])
    U.enum(Q, 'ScheduleMode', derive=['Clone', 'Copy'])
    U.add(SPEC)
    U.impl('impl Queue', [
        U.fn(Q, 'Queue', 'pending_scope', external_body=True, ensures=[('assumed', 'is_pending_scope(r)')]),
        U.fn(Q, 'Queue', 'running_scope', external_body=True, ensures=[('assumed', 'is_running_scope(r)')]),
        U.fn(Q, 'Queue', 'now', external_body=True),
        U.fn(Q, 'Queue', 'task_storage_key', external_body=True, ensures=[
            ('assumed', 'key_name(*r) == *name && (timestamp_millis is Some ==> key_ts(*r) == timestamp_millis->Some_0)')]),
        U.fn(Q, 'Queue', 'get_storage_key_and_time', external_body=True, ensures=[
            ('assumed', '''*final(store) == *old(store)
                && (is_pending_scope(scope) ==> match r { Some((k, ts)) => pending(*old(store)).contains(*k) && key_name(*k) == *name && key_ts(*k) == ts,
                                                          None => !has_pending(*old(store), *name) })
                && (is_running_scope(scope) ==> match r { Some((k, ts)) => running(*old(store)).contains(*k) && key_name(*k) == *name && key_ts(*k) == ts,
                                                          None => !has_running(*old(store), *name) })''')]),
        U.fn(Q, 'Queue', 'split_storage_key', external_body=True, ensures=[
            ('assumed', '(r is Some <==> key_valid(*key)) && (r is Some ==> r->Some_0.0 == key_ts(*key) && *r->Some_0.1 == key_name(*key))')]),
        # "due tasks are handed out earliest first": the fold step of claim_scheduled_pending_task
        U.closure_fn(Q, 'Queue', 'claim_scheduled_pending_task', 1, 'vx_claim_fold_step',
                     '(acc: Option<(u128, Box<Ident>)>, key: Box<Ident>, now: u128) -> (r: Option<(u128, Box<Ident>)>)',
                     requires=[('accumulator_is_due', 'acc is Some ==> acc->Some_0.0 <= now && key_ts(*acc->Some_0.1) == acc->Some_0.0')],
                     ensures=[
                         ('picks_one_of_the_two', 'r == acc || (key_valid(*key) && r == Some((key_ts(*key), key)))'),
                         ('only_due_tasks', 'r is Some ==> r->Some_0.0 <= now && key_ts(*r->Some_0.1) == r->Some_0.0'),
                         ('never_later_than_accumulator', 'acc is Some ==> r is Some && r->Some_0.0 <= acc->Some_0.0'),
                         ('never_later_than_a_due_key', 'key_valid(*key) && key_ts(*key) <= now ==> r is Some && r->Some_0.0 <= key_ts(*key)'),
                     ]),
        U.closure_fn(Q, 'Queue', 'finish_running_task', 0, 'vx_finish_running_tx',
                     '(store: &mut Transaction, storage_key: &Ident) -> (r: Result<Result<(), Error>, KeyValueError>)',
                     ensures=[
                         ('finished_entry_removed', 'r is Ok && r->Ok_0 is Ok ==> running(*final(store)) == running(*old(store)).remove(*storage_key) && pending(*final(store)) == pending(*old(store))'),
                         ('refused_only_if_not_running', 'r is Ok && r->Ok_0 is Err ==> !running(*old(store)).contains(*storage_key) && running(*final(store)) == running(*old(store)) && pending(*final(store)) == pending(*old(store))'),
                     ]),
        # re-scheduling a running task (retry later / restart) only moves that entry: a pending entry of the same task that was
        # scheduled in the meantime -- possibly for an earlier time, with a newer value -- stays ("keeps the earlier of the two times")
        U.closure_fn(Q, 'Queue', 'reschedule_running_task', 0, 'vx_reschedule_running_tx',
                     '(&self, store: &mut Transaction, storage_key: &Ident, name: &Ident, new_key: Box<Ident>) -> (r: Result<(), KeyValueError>)',
                     ensures=[
                         ('running_entry_becomes_pending', 'r is Ok ==> running(*final(store)) == running(*old(store)).remove(*storage_key) && pending(*final(store)).contains(*new_key)'),
                         ('pending_entries_stay', 'forall |k: Ident| pending(*old(store)).contains(k) ==> #[trigger] pending(*final(store)).contains(k)'),
                         ('nothing_else_becomes_pending', 'forall |k: Ident| #[trigger] pending(*final(store)).contains(k) ==> pending(*old(store)).contains(k) || k == *new_key'),
                     ]),
        U.closure_fn(Q, 'Queue', 'schedule_task', 0, 'vx_schedule_task_tx',
                     '(&self, store: &mut Transaction, name: &Ident, value: &serde_json::Value, timestamp_millis: Option<u128>, mode: ScheduleMode) -> (r: Result<(), KeyValueError>)',
                     requires=[('one_entry_per_name', 'uniq(pending(*old(store)), *name) && uniq(running(*old(store)), *name)')],
                     ghost_start='broadcast use axiom_min_u128;\n',
                     ensures=[
                         ('if_missing_never_replaces', '''r is Ok && mode is IfMissing && (has_pending(*old(store), *name) || has_running(*old(store), *name))
                                ==> pending(*final(store)) == pending(*old(store)) && running(*final(store)) == running(*old(store))'''),
                         ('scheduled', '''r is Ok && !(mode is IfMissing && (has_pending(*old(store), *name) || has_running(*old(store), *name)))
                                ==> has_pending(*final(store), *name) && uniq(pending(*final(store)), *name)'''),
                         ('at_requested_time', '''r is Ok && timestamp_millis is Some && (mode is ReplaceExisting || mode is FinishOrReplaceExisting || !has_pending(*old(store), *name))
                                && !(mode is IfMissing && has_running(*old(store), *name))
                                ==> pending_at(*final(store), *name, timestamp_millis->Some_0)'''),
                         ('soonest_keeps_the_earlier_time', '''r is Ok && timestamp_millis is Some && (mode is ReplaceExistingSoonest || mode is FinishOrReplaceExistingSoonest)
                                && has_pending(*old(store), *name)
                                ==> pending_at(*final(store), *name, min128(timestamp_millis->Some_0, pending_ts(*old(store), *name)->Some_0))'''),
                         ('finish_modes_end_the_running_entry', '''r is Ok && (mode is FinishOrReplaceExisting || mode is FinishOrReplaceExistingSoonest)
                                ==> !has_running(*final(store), *name)'''),
                         ('other_modes_keep_the_running_entry', '''r is Ok && !(mode is FinishOrReplaceExisting || mode is FinishOrReplaceExistingSoonest)
                                ==> running(*final(store)) == running(*old(store))'''),
                         ('other_tasks_untouched', 'r is Ok ==> others_untouched(*old(store), *final(store), *name)'),
                     ]),
    ])
    return U
