"""C05: child add / child resource update are refused exactly when the entitlement is empty, not held by the CA,
or (add) the child exists / (update) the child is unknown."""
from vxlib import Unit
from units import prelude

CA = 'src/server/ca/certauth.rs'
CH = 'src/server/ca/child.rs'
EV = 'src/server/ca/events.rs'
ERR = 'src/commons/error.rs'


def common(U, skip=()):
    prelude.hashmap(U)
    prelude.strings(U)
    for t in ['CaHandle', 'ChildHandle']:
        U.opaque(t, 'Clone')
    U.opaque('IdCertInfo', 'Clone, PartialEq, Eq')
    for t in ['Rfc8183Id', 'RepositoryContact', 'ParentCaContact', 'ResourceClass', 'Routes', 'Rtas', 'AspaDefinitions', 'BgpSecDefinitions',
              'ChildState', 'UsedKeyState']:
        if t not in skip:
            U.opaque(t, '')
    U.opaque('ParentHandle', 'Clone, PartialEq, Eq, Hash')
    U.opaque('ResourceClassName', 'Clone, PartialEq, Eq, Hash')
    U.opaque('KeyIdentifier', 'Clone, Copy, PartialEq, Eq, Hash')
    U.opaque('ResourceSet', 'Clone')
    U.outside('''
pub type KrillResult<T> = Result<T, Error>;
impl std::hash::Hash for ChildHandle { fn hash<H: std::hash::Hasher>(&self, _s: &mut H) { unimplemented!() } }
impl PartialEq for ChildHandle { fn eq(&self, _o: &Self) -> bool { unimplemented!() } }
impl Eq for ChildHandle {}
impl ResourceSet {
    pub fn is_empty(&self) -> bool { unimplemented!() }
    pub fn contains(&self, _o: &ResourceSet) -> bool { unimplemented!() }
    pub fn difference(&self, _o: &ResourceSet) -> ResourceSet { unimplemented!() }
}
''')
    U.add('''
pub uninterp spec fn rs_is_empty(r: ResourceSet) -> bool;
pub uninterp spec fn rs_contains(a: ResourceSet, b: ResourceSet) -> bool;
pub uninterp spec fn rs_difference(a: ResourceSet, b: ResourceSet) -> ResourceSet;
pub assume_specification [ResourceSet::is_empty] (r: &ResourceSet) -> (b: bool) ensures b == rs_is_empty(*r);
pub assume_specification [ResourceSet::contains] (a: &ResourceSet, o: &ResourceSet) -> (b: bool) ensures b == rs_contains(*a, *o);
pub assume_specification [ResourceSet::difference] (a: &ResourceSet, o: &ResourceSet) -> (r: ResourceSet) ensures r == rs_difference(*a, *o);
/// everything the CA currently holds under all parents (the union computed by CertAuth::all_resources, assumed)
pub uninterp spec fn all_res(ca: CertAuth) -> ResourceSet;
''')


def build():
    U = Unit('c05_child', 'C05', 'child add/update: accepted exactly when the entitlement is non-empty, held by the CA and the child is new / known')
    common(U)
    U.struct(CA, 'CertAuth', derive=[])
    U.struct(CH, 'ChildDetails', derive=[])
    U.enum(EV, 'CertAuthEvent', keep=['ChildAdded', 'ChildUpdatedResources', 'ChildUpdatedIdCert', 'ChildUpdatedResourceClassNameMapping'], derive=[])
    U.struct('src/api/admin.rs', 'ResourceClassNameMapping', derive=[])
    U.add('''
/// ASSUMED: `!=` on identity certificates is value (in)equality (derived PartialEq in krill)
impl vstd::std_specs::cmp::PartialEqSpecImpl for IdCertInfo {
    open spec fn obeys_eq_spec() -> bool { true }
    open spec fn eq_spec(&self, other: &IdCertInfo) -> bool { *self == *other }
}
pub assume_specification [<IdCertInfo as PartialEq>::eq] (a: &IdCertInfo, b: &IdCertInfo) -> (r: bool);
''')
    U.enum(ERR, 'Error', keep=['CaChildMustHaveResources', 'CaChildExtraResources', 'CaChildDuplicate', 'CaChildUnknown', 'Custom'], derive=[])
    U.add('/// the keys the child has in use under a class of this CA (ChildDetails::issued, verified in unit c05_allres)\npub uninterp spec fn child_keys(c: ChildDetails, rcn: ResourceClassName) -> Seq<KeyIdentifier>;')
    km = 'obeys_key_model::<ChildHandle>()'
    U.impl('impl ChildDetails', [U.fn(CH, 'ChildDetails', 'issued', external_body=True, ensures=[('verified_in_unit_c05_allres', 'r@ == child_keys(*self, *parent_rcn)')])])
    U.impl('impl CertAuth', [
        U.fn(CA, 'CertAuth', 'all_resources', external_body=True, ensures=[('is_all_res', 'r == all_res(*self)')]),
        U.fn(CA, 'CertAuth', 'has_child', requires=[('key_model', km)], ensures=[('iff_known', 'r == self.children@.contains_key(*child_handle)')]),
        U.fn(CA, 'CertAuth', 'get_child', requires=[('key_model', km)], ensures=[
            ('known', 'r is Ok <==> self.children@.contains_key(*child)'),
            ('details', 'r is Ok ==> *r->Ok_0 == self.children@[*child]')]),
        U.fn(CA, 'CertAuth', 'process_child_add', requires=[('key_model', km)], ensures=[
            ('accepted_exactly_when', '(r is Ok) <==> (!rs_is_empty(resources) && rs_contains(all_res(*self), resources) && !self.children@.contains_key(child))'),
            ('event', 'r is Ok ==> r->Ok_0@ == seq![CertAuthEvent::ChildAdded { child, id_cert, resources }]')]),
        U.fn(CA, 'CertAuth', 'process_child_update_resources', requires=[('key_model', km)], ensures=[
            ('accepted_exactly_when', '(r is Ok) <==> (rs_contains(all_res(*self), resources) && self.children@.contains_key(*child_handle))'),
            ('replayable_names_only_a_known_child', 'r is Ok ==> self.children@.contains_key(*child_handle)'),
            ('event_or_noop', '''r is Ok ==> (if rs_is_empty(rs_difference(resources, self.children@[*child_handle].resources)) { r->Ok_0@.len() == 0 }
                else { r->Ok_0@ == seq![CertAuthEvent::ChildUpdatedResources { child: *child_handle, resources }] })''')]),
        # the name under which a child knows one of our classes can only be set while the child holds no certificate in that class
        # (a certificate issued under the old name could otherwise never be revoked by the child: the revocation request names the class)
        U.fn(CA, 'CertAuth', 'process_child_resource_class_name_mapping', requires=[('key_model', km + ' && obeys_key_model::<ResourceClassName>()')], ensures=[
            ('refused_for_an_unknown_child_or_a_class_the_child_holds_certificates_in', '''(r is Ok) <==> (self.children@.contains_key(child_handle)
                    && child_keys(self.children@[child_handle], mapping.name_in_parent).len() == 0)'''),
            ('recorded_for_that_child_and_class', '''r is Ok ==> r->Ok_0@.len() == 1 && r->Ok_0@[0] == (CertAuthEvent::ChildUpdatedResourceClassNameMapping {
                    child: child_handle, name_in_parent: mapping.name_in_parent, name_for_child: mapping.name_for_child })''')]),
        # C12: a new identity certificate for a child is recorded for THAT child whenever it differs from the registered one (so that
        # from then on requests are validated against it, units c06_apply / c12_rfc6492); an unknown child is refused
        U.fn(CA, 'CertAuth', 'process_child_update_id_cert', requires=[('key_model', km)], ensures=[
            ('refused_exactly_for_an_unknown_child', '(r is Ok) <==> self.children@.contains_key(*child_handle)'),
            ('a_different_certificate_is_recorded_for_that_child', '''r is Ok && id_cert != self.children@[*child_handle].id_cert ==>
                    r->Ok_0@ == seq![CertAuthEvent::ChildUpdatedIdCert { child: *child_handle, id_cert }]'''),
            ('the_same_certificate_leaves_no_trace', 'r is Ok && id_cert == self.children@[*child_handle].id_cert ==> r->Ok_0@.len() == 0')]),
    ])
    return U
