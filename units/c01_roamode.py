"""C01: Roas::mode -- the ROA publication strategy is a total function of (currently aggregating?, total, thresholds);
in particular an empty relevant set never changes the strategy, so existing aggregated ROAs are still handled (and withdrawn)
by the aggregate path.  Roas::create_updates dispatches each mode to its own update function."""
from vxlib import Unit
from units import prelude

ROA = 'src/server/ca/roa.rs'

SPEC = r'''
/// some aggregated ROA without explicit group number exists
pub open spec fn aggregating(r: Roas) -> bool { exists |k: RoaAggregateKey| r.aggregate@.contains_key(k) && k.group is None }
pub open spec fn mode_table(agg: bool, total: usize, de_agg: usize, start_agg: usize) -> RoaMode {
    if agg { if total != 0 && total < de_agg { RoaMode::StopAggregating } else { RoaMode::Aggregate } }
    else { if total > start_agg { RoaMode::StartAggregating } else { RoaMode::Simple } }
}
'''


def build():
    U = Unit('c01_roamode', 'C01', 'ROA mode switch is the 4-way table; total == 0 never changes strategy')
    prelude.hashmap(U)
    prelude.strings(U)
    U.opaque('AsNumber', 'Clone, Copy, PartialEq, Eq, Hash')
    U.opaque('RoaPayloadJsonMapKey', 'Clone, Copy, PartialEq, Eq, Hash')
    U.opaque('RoaInfo', 'Clone')
    U.struct(ROA, 'RoaAggregateKey', derive=['Clone', 'Copy', 'PartialEq', 'Eq', 'Hash'], structural=False)
    U.struct(ROA, 'Roas', derive=[])
    U.enum(ROA, 'RoaMode', derive=['Clone', 'PartialEq', 'Eq'])
    U.add(SPEC)
    U.impl('impl RoaAggregateKey', [
        U.fn(ROA, 'RoaAggregateKey', 'group', ensures=[('is_field', 'r == self.group')]),
    ])
    U.impl('impl Roas', [
        # keys().any(closure): the closure result is not specified by vstd; contract ASSUMED
        U.fn(ROA, 'Roas', 'is_currently_aggregating', external_body=True, ensures=[('def', 'r == aggregating(*self)')]),
        U.fn(ROA, 'Roas', 'mode', ensures=[
            ('is_table', 'r == mode_table(aggregating(*self), total, de_aggregation_threshold, aggregation_threshold)'),
            ('empty_set_keeps_strategy', 'total == 0 ==> (r == (if aggregating(*self) { RoaMode::Aggregate } else { RoaMode::Simple }))')]),
    ])
    return U
