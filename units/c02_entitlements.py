"""C02 / C03 / C06: CertAuth::process_update_entitlements -- which of the CA's resource classes are given up when a parent's list
reply arrives.  The selection predicate (closure handed to Iterator::filter, lifted verbatim, R15): a class is removed exactly when
it is held under THIS parent and the parent no longer lists the class under the name THE PARENT knows it by (not our own name for
it -- the two differ for every class but the first, after a class was lost and regained, and under a second parent).  Removing a
class the parent still lists makes the CA drop and re-create it on every synchronisation (no convergence); keeping one the parent
dropped leaves certificates published that the parent has revoked."""
import re
import vxlib
from vxlib import Unit
from units import prelude

CA = 'src/server/ca/certauth.rs'

SPEC = r'''
pub uninterp spec fn rc_parent(rc: ResourceClass) -> ParentHandle;
pub uninterp spec fn rc_parent_name(rc: ResourceClass) -> ResourceClassName;
impl ResourceClass {
    #[verifier::external_body] pub fn parent_handle(&self) -> (r: &ParentHandle) ensures *r == rc_parent(*self) { unimplemented!() }
    #[verifier::external_body] pub fn parent_rc_name(&self) -> (r: &ResourceClassName) ensures *r == rc_parent_name(*self) { unimplemented!() }
}
/// ASSUMED (std): slice::contains on a vector of references compares the referents
#[verifier::external_body]
pub fn vx_contains(v: &Vec<&ResourceClassName>, x: &&ResourceClassName) -> (r: bool)
    ensures r == (exists |i: int| 0 <= i < v@.len() && *(#[trigger] v@[i]) == **x) { v.contains(x) }
'''


def build():
    U = Unit('c02_entitlements', 'C02', 'a resource class is given up exactly when it is held under this parent and the parent no longer lists it under the name the parent knows it by')
    prelude.strings(U)
    U.opaque('ParentHandle', 'Clone, PartialEq, Eq', eq=True)
    U.opaque('ResourceClassName', 'Clone, PartialEq, Eq', eq=True)
    U.opaque('ResourceClass', '')
    U.add(SPEC)
    # the closure binds the map entry with a tuple pattern; its two names are taken from the source as written
    src, e = vxlib.find(CA, 'fn', fn='process_update_entitlements', impl='CertAuth')
    hits = [i for i, C in enumerate(e['closures']) if 'parent_handle' in src[C['body'][0]:C['body'][1]].decode()]
    if len(hits) != 1:
        raise vxlib.LostAnchor('process_update_entitlements: the closure that selects the classes to remove was not found')
    C = e['closures'][hits[0]]
    m = re.match(r'\|\s*\(\s*([A-Za-z_][A-Za-z0-9_]*)\s*,\s*([A-Za-z_][A-Za-z0-9_]*)\s*\)\s*\|', src[C['span'][0]:C['body'][0]].decode())
    if not m:
        raise vxlib.LostAnchor('process_update_entitlements: selection closure no longer binds (name, class)')
    nm, cl = m.group(1), m.group(2)
    U.free(U.closure_fn(CA, 'CertAuth', 'process_update_entitlements', hits[0], 'vx_class_is_given_up',
                       f'({nm}: &&ResourceClassName, {cl}: &&ResourceClass, parent_handle: ParentHandle, entitled_classes: Vec<&ResourceClassName>) -> (r: bool)',
                       subst=[('entitled_classes.contains(', 'vx_contains(&entitled_classes, ', 'R14')],
                       ensures=[('given_up_iff_held_under_this_parent_and_no_longer_listed_under_the_parents_name', f'''r == (rc_parent(**{cl}) == parent_handle
                            && !(exists |i: int| 0 <= i < entitled_classes@.len() && *(#[trigger] entitled_classes@[i]) == rc_parent_name(**{cl})))''')]))
    # the list the predicate above is asked against: the names of ALL classes of the list reply, whatever they carry (a class listed with
    # an empty resource set is still listed: the second loop of the function serves it, so it must not be given up by the first).
    # The iterator chain is read as the declared function below (R14, assumed std semantics of iter().map(f).collect()).
    U.opaque('ResourceClassListResponse', '')
    U.opaque('ResourceClassEntitlements', '')
    U.add('''
pub uninterp spec fn listed_classes(l: ResourceClassListResponse) -> Seq<ResourceClassEntitlements>;
pub uninterp spec fn ent_name(e: ResourceClassEntitlements) -> ResourceClassName;
/// ASSUMED: `l.classes().iter().map(|c| c.class_name()).collect::<Vec<_>>()` lists the name of every class of the reply, in order
#[verifier::external_body]
pub fn vx_all_class_names(l: &ResourceClassListResponse) -> (r: Vec<&ResourceClassName>)
    ensures r@.len() == listed_classes(*l).len(), forall |i: int| 0 <= i < r@.len() ==> *(#[trigger] r@[i]) == ent_name(listed_classes(*l)[i])
{ unimplemented!() }
''')
    U.free(U.stmt_fn(CA, 'CertAuth', 'process_update_entitlements', 'let entitled_classes =', 'vx_entitled_class_names',
                     '(entitlements: &ResourceClassListResponse) -> (r: Vec<&ResourceClassName>)', tail='entitled_classes',
                     subst=[('''entitlements
            .classes()
            .iter()
            .map(|c| c.class_name())
            .collect::<Vec<_>>()''', 'vx_all_class_names(entitlements)', 'R14')],
                     ensures=[('every_listed_class_counts_as_entitled', '''r@.len() == listed_classes(*entitlements).len()
                        && forall |i: int| 0 <= i < r@.len() ==> *(#[trigger] r@[i]) == ent_name(listed_classes(*entitlements)[i])''')]))
    return U
