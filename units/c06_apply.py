"""C06 (replay never panics, child / resource-class event families): CertAuth::apply takes every stored event that refers to a known
child and a known resource class without reaching an `unwrap` on a missing entry, and moves the sets of known children and known
classes exactly as the event says (ChildAdded / ChildRemoved / ResourceClassAdded / ResourceClassRemoved change them, nothing else
does) -- the abstraction against which the emitting side (process_child_*) is verified to produce only applicable events.  The key
events of the same match are decided in unit c04_apply."""
from vxlib import Unit
from units import prelude

CA = 'src/server/ca/certauth.rs'
RC = 'src/server/ca/rc.rs'
CH = 'src/server/ca/child.rs'
EV = 'src/server/ca/events.rs'

CHILD_EVENTS = ['ChildAdded', 'ChildCertificateIssued', 'ChildKeyRevoked', 'ChildCertificatesUpdated', 'ChildUpdatedIdCert', 'ChildUpdatedResources',
                'ChildUpdatedResourceClassNameMapping', 'ChildRemoved', 'ChildSuspended', 'ChildUnsuspended']
CLASS_EVENTS = ['ResourceClassAdded', 'ResourceClassRemoved', 'RoasUpdated', 'AspaObjectsUpdated', 'BgpSecCertificatesUpdated']

OUT = '''
pub type ParentResourceClassName = ResourceClassName;
impl ChildDetails { pub fn new(_id: IdCertInfo, _r: ResourceSet) -> Self { unimplemented!() } }
impl ResourceClass {
    pub fn create(_n: ResourceClassName, _ns: String, _p: ParentHandle, _pn: ResourceClassName, _k: KeyIdentifier) -> Self { unimplemented!() }
    pub fn apply_removed_revoked_key(&mut self, _k: &KeyIdentifier) { unimplemented!() }
    pub fn apply_added_issued_certificate(&mut self, _c: IssuedCertificate) { unimplemented!() }
    pub fn apply_unsuspend_certificate(&mut self, _c: UnsuspendedCert) { unimplemented!() }
    pub fn apply_suspend_certificate(&mut self, _c: SuspendedCert) { unimplemented!() }
    pub fn apply_roa_updates(&mut self, _u: RoaUpdates) { unimplemented!() }
    pub fn apply_aspa_updates(&mut self, _u: AspaObjectsUpdates) { unimplemented!() }
    pub fn apply_bgpsec_updates(&mut self, _u: BgpSecCertificateUpdates) { unimplemented!() }
}
pub fn vx_mark_revoked(_c: &mut HashMap<ChildHandle, ChildDetails>, _k: &KeyIdentifier) { unimplemented!() }
pub fn vx_rcn_string(_n: &ResourceClassName) -> String { unimplemented!() }
'''

SPEC = r'''
// ASSUMED externals: the per-class apply steps (store updates on one ResourceClass; their own panic-freedom is not decided here,
// the key-state steps are in c04_keystate) and the constructors
pub assume_specification [ChildDetails::new] (id: IdCertInfo, r: ResourceSet) -> (c: ChildDetails);
pub assume_specification [ResourceClass::create] (n: ResourceClassName, ns: String, p: ParentHandle, pn: ResourceClassName, k: KeyIdentifier) -> (c: ResourceClass);
pub assume_specification [ResourceClass::apply_removed_revoked_key] (rc: &mut ResourceClass, k: &KeyIdentifier);
pub assume_specification [ResourceClass::apply_added_issued_certificate] (rc: &mut ResourceClass, c: IssuedCertificate);
pub assume_specification [ResourceClass::apply_unsuspend_certificate] (rc: &mut ResourceClass, c: UnsuspendedCert);
pub assume_specification [ResourceClass::apply_suspend_certificate] (rc: &mut ResourceClass, c: SuspendedCert);
pub assume_specification [ResourceClass::apply_roa_updates] (rc: &mut ResourceClass, u: RoaUpdates);
pub assume_specification [ResourceClass::apply_aspa_updates] (rc: &mut ResourceClass, u: AspaObjectsUpdates);
pub assume_specification [ResourceClass::apply_bgpsec_updates] (rc: &mut ResourceClass, u: BgpSecCertificateUpdates);
/// the inner loop of the ChildCertificatesUpdated arm (`for child in self.children.values_mut()`: marks the key as revoked for the
/// children that have it; Verus has no model of values_mut): tagged substitution, ASSUMED to keep the set of children
pub assume_specification [vx_mark_revoked] (c: &mut HashMap<ChildHandle, ChildDetails>, k: &KeyIdentifier)
    ensures final(c)@.dom() == old(c)@.dom();
pub assume_specification [vx_rcn_string] (n: &ResourceClassName) -> (s: String);

// ---- which stored events the state can take, and what they do to the sets of known children / classes ----
pub open spec fn ev_child(ev: CertAuthEvent) -> Option<ChildHandle> {
    match ev {
        CertAuthEvent::ChildCertificateIssued { child, .. } => Some(child),
        CertAuthEvent::ChildKeyRevoked { child, .. } => Some(child),
        CertAuthEvent::ChildUpdatedIdCert { child, .. } => Some(child),
        CertAuthEvent::ChildUpdatedResources { child, .. } => Some(child),
        CertAuthEvent::ChildUpdatedResourceClassNameMapping { child, .. } => Some(child),
        CertAuthEvent::ChildSuspended { child } => Some(child),
        CertAuthEvent::ChildUnsuspended { child } => Some(child),
        _ => None,
    }
}
pub open spec fn ev_class(ev: CertAuthEvent) -> Option<ResourceClassName> {
    match ev {
        CertAuthEvent::ChildKeyRevoked { resource_class_name, .. } => Some(resource_class_name),
        CertAuthEvent::ChildCertificatesUpdated { resource_class_name, .. } => Some(resource_class_name),
        CertAuthEvent::RoasUpdated { resource_class_name, .. } => Some(resource_class_name),
        CertAuthEvent::AspaObjectsUpdated { resource_class_name, .. } => Some(resource_class_name),
        CertAuthEvent::BgpSecCertificatesUpdated { resource_class_name, .. } => Some(resource_class_name),
        _ => None,
    }
}
/// the event refers only to a child / class the aggregate knows (what every `get_mut(..).unwrap()` of apply relies on)
pub open spec fn ev_applicable(children: Set<ChildHandle>, classes: Set<ResourceClassName>, ev: CertAuthEvent) -> bool {
    (ev_child(ev) is Some ==> children.contains(ev_child(ev)->Some_0)) && (ev_class(ev) is Some ==> classes.contains(ev_class(ev)->Some_0))
}
pub open spec fn children_after(children: Set<ChildHandle>, ev: CertAuthEvent) -> Set<ChildHandle> {
    match ev {
        CertAuthEvent::ChildAdded { child, .. } => children.insert(child),
        CertAuthEvent::ChildRemoved { child } => children.remove(child),
        _ => children,
    }
}
pub open spec fn classes_after(classes: Set<ResourceClassName>, ev: CertAuthEvent) -> Set<ResourceClassName> {
    match ev {
        CertAuthEvent::ResourceClassAdded { resource_class_name, .. } => classes.insert(resource_class_name),
        CertAuthEvent::ResourceClassRemoved { resource_class_name, .. } => classes.remove(resource_class_name),
        _ => classes,
    }
}
'''


def build():
    U = Unit('c06_apply', 'C06', 'CertAuth::apply, child and class event families: an event that names a known child / class is applied without panic; the sets of known children and classes move exactly as the event says')
    U.feature('allocator_api', 'sized_hierarchy')
    prelude.hashmap(U, get_mut=True)
    prelude.strings(U)
    U.opaque('KeyIdentifier', 'Clone, Copy, PartialEq, Eq, Hash')
    U.opaque('ResourceClassName', 'Clone, PartialEq, Eq, Hash')
    U.opaque('ChildHandle', 'Clone, PartialEq, Eq, Hash')
    U.opaque('ParentHandle', 'Clone, PartialEq, Eq, Hash')
    for t in ['ResourceSet', 'IdCertInfo', 'IssuedCertificate', 'UnsuspendedCert', 'SuspendedCert',
              'RoaUpdates', 'AspaObjectsUpdates', 'BgpSecCertificateUpdates', 'ResourceClass']:
        U.opaque(t, '')
    U.auto_opaque = True
    U.enum('src/api/ca.rs', 'ChildState', derive=[])
    U.enum(CH, 'UsedKeyState', derive=[])
    U.struct(CH, 'ChildDetails', derive=[])
    U.struct(CH, 'ChildCertificateUpdates', derive=[])
    U.struct(CA, 'CertAuth', derive=[])
    U.enum(EV, 'CertAuthEvent', keep=CHILD_EVENTS + CLASS_EVENTS, derive=[])
    U.outside(OUT)
    U.add(SPEC)
    km = 'obeys_key_model::<ResourceClassName>() && obeys_key_model::<ChildHandle>() && obeys_key_model::<KeyIdentifier>()'
    U.impl('impl CertAuth', [
        U.fn(CA, 'CertAuth', 'apply', trait='Aggregate', as_inherent=True,
             keep_arms={'CertAuthEvent': CHILD_EVENTS + CLASS_EVENTS}, attrs=['#[verifier::loop_isolation(false)]'],
             subst=[('''for child in self.children.values_mut() {
                        if child.is_issued(&rem) {
                            child.used_keys.insert(
                                rem, UsedKeyState::Revoked
                            );
                        }
                    }''', 'vx_mark_revoked(&mut self.children, &rem);', 'R14'),
                    ('resource_class_name.to_string()', 'vx_rcn_string(&resource_class_name)', 'R14')],
             requires=[('km', km), ('event_of_these_families', '!(event is VxOther)'),
                       ('refers_to_known_child_and_class', 'ev_applicable(old(self).children@.dom(), old(self).resources@.dom(), event)'),
                       ('class_counter_in_range', 'old(self).next_class_name < u32::MAX')],
             loops={2: {'invariant': [('children_set_kept', 'self.children@.dom() == old(self).children@.dom()')]}},
             ensures=[
                 ('known_children_move_as_the_event_says', 'final(self).children@.dom() =~= children_after(old(self).children@.dom(), event)'),
                 ('known_classes_move_as_the_event_says', 'final(self).resources@.dom() =~= classes_after(old(self).resources@.dom(), event)'),
                 ('version_untouched', 'final(self).version == old(self).version'),
                 # C12: from this event on the child is validated against the NEW identity certificate (verify_rfc6492 reads this
                 # field, unit c12_rfc6492), and no other child's identity changes
                 ('a_new_identity_certificate_replaces_the_old_one_for_that_child_only', '''event is ChildUpdatedIdCert ==>
                        final(self).children@[event->ChildUpdatedIdCert_child].id_cert == event->ChildUpdatedIdCert_id_cert
                        && (forall |c: ChildHandle| c != event->ChildUpdatedIdCert_child && #[trigger] old(self).children@.contains_key(c) ==> final(self).children@[c] == old(self).children@[c])'''),
             ]),
        # the version laws that unit c07_command assumes of every aggregate, for the CA aggregate
        U.fn(CA, 'CertAuth', 'version', trait='Aggregate', as_inherent=True, ensures=[('is_the_field', 'r == self.version')]),
        U.fn(CA, 'CertAuth', 'increment_version', trait='Aggregate', as_inherent=True, requires=[('not_at_the_end_of_u64', 'old(self).version < u64::MAX')],
             ensures=[('adds_one_and_nothing_else', '''final(self).version == old(self).version + 1 && final(self).children == old(self).children
                        && final(self).resources == old(self).resources && final(self).parents == old(self).parents && final(self).handle == old(self).handle''')]),
    ])
    return U
