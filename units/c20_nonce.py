"""C20 (session key): crypt_init -- the AEAD that seals session tokens (ChaCha20-Poly1305) is only as good as its nonce discipline: a
(key, nonce) pair must never be used twice, or the key stream and the one-time authenticator key leak and tokens can be forged.
The nonce is sender_unique | counter with the counter advanced in memory only, so a nonce state must never be CONTINUED from
storage: the state handed out by crypt_init is a fresh one (NonceState::new: new random sender id, counter 0), whether the key was
just generated or read back.  (That a fresh random 32-bit sender id does not collide with an earlier one is the usual birthday
assumption, not proved.)"""
from vxlib import Unit
from units import prelude

CRYPT = 'src/daemon/http/auth/crypt.rs'

OUT = '''
pub type KrillResult<T> = Result<T, Error>;
pub mod openssl { pub mod rand { pub fn rand_bytes(_b: &mut [u8]) -> Result<(), super::super::ErrorStack> { unimplemented!() } } }
impl From<KeyValueError> for Error { fn from(_e: KeyValueError) -> Self { unimplemented!() } }
impl From<OpenStoreError> for Error { fn from(_e: OpenStoreError) -> Self { unimplemented!() } }
impl StorageSystem { pub fn open(&self, _ns: &Ident) -> Result<KeyValueStore, OpenStoreError> { unimplemented!() } }
impl KeyValueStore {
    pub fn get<V>(&self, _scope: Option<&Ident>, _key: &Ident) -> Result<Option<V>, KeyValueError> { unimplemented!() }
    pub fn store_new<V>(&self, _scope: Option<&Ident>, _key: &Ident, _v: &V) -> Result<(), KeyValueError> { unimplemented!() }
}
impl Ident { pub const fn make(_s: &'static str) -> &'static Ident { &Ident(0) } }
'''

SPEC = r'''
/// these bytes were drawn from the CSPRNG in this run (only ever ESTABLISHED by the assumed contract of rand_bytes)
pub uninterp spec fn fresh_random(b: Seq<u8>) -> bool;
/// this value was read back from the store (only ever ESTABLISHED by the assumed contract of KeyValueStore::get)
pub uninterp spec fn read_back<V>(v: V) -> bool;
pub assume_specification [openssl::rand::rand_bytes] (b: &mut [u8]) -> (r: Result<(), ErrorStack>) ensures final(b)@.len() == old(b)@.len(), r is Ok ==> fresh_random(final(b)@);
pub assume_specification [<Error as From<KeyValueError>>::from] (e: KeyValueError) -> (r: Error);
pub assume_specification [<Error as From<OpenStoreError>>::from] (e: OpenStoreError) -> (r: Error);
pub assume_specification [StorageSystem::open] (s: &StorageSystem, ns: &Ident) -> (r: Result<KeyValueStore, OpenStoreError>);
pub assume_specification<V> [KeyValueStore::get::<V>] (s: &KeyValueStore, scope: Option<&Ident>, key: &Ident) -> (r: Result<Option<V>, KeyValueError>)
    ensures r is Ok && r->Ok_0 is Some ==> read_back(r->Ok_0->Some_0);
pub assume_specification<V> [KeyValueStore::store_new::<V>] (s: &KeyValueStore, scope: Option<&Ident>, key: &Ident, v: &V) -> (r: Result<(), KeyValueError>);
pub assume_specification [Ident::make] (s: &'static str) -> (r: &'static Ident);
/// the namespace / key names of the stored session key (opaque identifiers; their spelling is not part of the contract)
#[verifier::external_body] pub exec const CRYPT_STATE_NS: &'static Ident ensures true { Ident::make("login_sessions") }
#[verifier::external_body] pub exec const CRYPT_STATE_KEY: &'static Ident ensures true { Ident::make("main_key") }
/// this nonce state was created by NonceState::new in THIS run of the daemon (new random sender id, counter 0): it does not continue
/// a sequence that an earlier run may already have used under the same key
pub uninterp spec fn fresh_nonce_state(n: NonceState) -> bool;
'''


def build():
    U = Unit('c20_nonce', 'C20', 'crypt_init never continues a stored nonce sequence: the session key may be read back, the nonce state is always a fresh one')
    prelude.strings(U)
    for t in ['ErrorStack', 'KeyValueError', 'OpenStoreError', 'StorageSystem', 'KeyValueStore', 'Ident', 'NonceState']:
        U.opaque(t, '')
    U.outside(OUT)
    U.enum('src/commons/error.rs', 'Error', keep=['Custom'], derive=[])
    U.struct(CRYPT, 'CryptState', derive=[])
    U.add(SPEC)
    for c in ['CHACHA20_KEY_BIT_LEN', 'CHACHA20_KEY_BYTE_LEN']:
        U.free(U.const(CRYPT, None, c))
    U.impl('impl NonceState', [
        U.fn(CRYPT, 'NonceState', 'new', external_body=True, ensures=[('assumed_fresh', 'r is Ok ==> fresh_nonce_state(r->Ok_0)')]),
    ])
    U.impl('impl CryptState', [
        U.fn(CRYPT, 'CryptState', 'from_key_bytes', ensures=[('this_key_with_a_fresh_nonce_state', 'r is Ok ==> r->Ok_0.key == key && fresh_nonce_state(r->Ok_0.nonce)')]),
    ])
    U.free(U.fn(CRYPT, None, 'crypt_init', ensures=[
        ('nonce_sequence_never_continued_from_storage', 'r is Ok ==> fresh_nonce_state(r->Ok_0.nonce)'),
        # every instance seals its tokens under ITS OWN key: the key of an earlier start of this instance, or bytes just drawn from the
        # CSPRNG -- never a constant (a token issued under another instance's key authenticates nobody)
        ('the_session_key_is_the_stored_one_or_freshly_random', '''r is Ok ==> fresh_random(r->Ok_0.key@)
                || exists |st: CryptState| #[trigger] read_back(st) && st.key == r->Ok_0.key''')]))
    return U
