"""C03: KeyObjectSet::update_certs / Revocations::add / PublishedItem::revoke.
Every insert/remove in a key's object set records the superseded object's revocation and never drops one."""
from vxlib import Unit
from units import prelude

PUB = 'src/server/ca/publishing.rs'
CA = 'src/api/ca.rs'
CH = 'src/server/ca/child.rs'
ASPA = 'src/server/ca/aspa.rs'
API_ASPA = 'src/api/aspa.rs'
BGP = 'src/server/ca/bgpsec.rs'
API_BGP = 'src/api/bgpsec.rs'


def build():
    U = Unit('c03_keyobjectset', 'C03', 'object-set updates record the revocation of every superseded object')
    prelude.hashmap(U)
    U.opaque('ObjectName', 'Clone, PartialEq, Eq, Hash')
    U.opaque('Base64', 'Clone')
    U.opaque('Hash', 'Clone, Copy, PartialEq, Eq')
    U.opaque('Serial', 'Clone, Copy, PartialEq, Eq')
    U.opaque('Time', 'Clone, Copy, PartialEq, Eq, PartialOrd')
    U.opaque('Validity', 'Clone, Copy, PartialEq, Eq')
    U.opaque('KeyIdentifier', 'Clone, Copy, PartialEq, Eq, Hash')
    for t in ['ResourceSet', 'RequestResourceLimit', 'Name', 'CsrInfo', 'RepositoryContact', 'PublishedManifest', 'PublishedCrl',
              'Issued', 'Suspended', 'Unsuspended', 'Received', 'PublishedItemOther']:
        U.opaque(t, 'Clone', clone_spec=True)
    U.opaque('ObjectSetRevision', 'Clone, Copy')
    U.opaque('Rsync', 'Clone', module='uri', clone_spec=False)
    U.opaque('Error', '')
    U.opaque('Asn', 'Clone, Copy, PartialEq, Eq, Hash')
    U.opaque('PublicKey', 'Clone')
    U.outside('''
pub mod rrdp { pub use super::Hash; }
pub type ReceivedCert = CertInfo<Received>;
pub type IssuedCertificate = CertInfo<Issued>;
pub type SuspendedCert = CertInfo<Suspended>;
pub type UnsuspendedCert = CertInfo<Unsuspended>;
pub type PublishedObject = PublishedItem<PublishedItemOther>;
pub type KrillResult<T> = Result<T, Error>;
pub type CustomerAsn = Asn;
pub type ProviderAsn = Asn;
impl ObjectName { pub fn aspa_from_customer(_c: Asn) -> Self { unimplemented!() } pub fn bgpsec(_a: Asn, _k: KeyIdentifier) -> Self { unimplemented!() } }
impl PublicKey { pub fn key_identifier(&self) -> KeyIdentifier { unimplemented!() } }
impl ObjectName { pub fn from_key(_ki: &KeyIdentifier, _extension: &str) -> Self { unimplemented!() } }
impl Base64 { pub fn to_hash(&self) -> Hash { unimplemented!() } }
impl Validity { pub fn not_after(&self) -> Time { unimplemented!() } }
impl Time { pub fn now() -> Time { unimplemented!() } }
''')
    U.add('''
pub uninterp spec fn name_of_key(k: KeyIdentifier, ext: Seq<char>) -> ObjectName;
pub uninterp spec fn hash_of(b: Base64) -> Hash;
pub uninterp spec fn not_after(v: Validity) -> Time;
/// the clock is an input: what Time::now() answers when remove_expired reads it
pub uninterp spec fn clock() -> Time;
pub uninterp spec fn time_cmp(a: Time, b: Time) -> Option<std::cmp::Ordering>;
impl vstd::std_specs::cmp::PartialOrdSpecImpl for Time {
    open spec fn obeys_partial_cmp_spec() -> bool { true }
    open spec fn partial_cmp_spec(&self, other: &Time) -> Option<std::cmp::Ordering> { time_cmp(*self, *other) }
}
pub assume_specification [<Time as PartialOrd>::partial_cmp] (a: &Time, b: &Time) -> (r: Option<std::cmp::Ordering>) ensures r == time_cmp(*a, *b);
/// 'the object has expired': its expiry time is not later than the clock
pub open spec fn expired(t: Time) -> bool { time_cmp(t, clock()) != Some(std::cmp::Ordering::Greater) }
pub assume_specification [ObjectName::from_key] (ki: &KeyIdentifier, extension: &str) -> (r: ObjectName)
    ensures r == name_of_key(*ki, extension@);
pub assume_specification [Base64::to_hash] (b: &Base64) -> (r: Hash) ensures r == hash_of(*b);
pub assume_specification [Validity::not_after] (v: &Validity) -> (r: Time) ensures r == not_after(*v);
pub assume_specification [Time::now] () -> (r: Time) ensures r == clock();
pub uninterp spec fn aspa_name(c: Asn) -> ObjectName;
pub uninterp spec fn bgpsec_name(a: Asn, k: KeyIdentifier) -> ObjectName;
pub uninterp spec fn pk_ki(k: PublicKey) -> KeyIdentifier;
pub assume_specification [ObjectName::aspa_from_customer] (c: Asn) -> (r: ObjectName) ensures r == aspa_name(c);
pub assume_specification [ObjectName::bgpsec] (a: Asn, k: KeyIdentifier) -> (r: ObjectName) ensures r == bgpsec_name(a, k);
pub assume_specification [PublicKey::key_identifier] (k: &PublicKey) -> (r: KeyIdentifier) ensures r == pk_ki(*k);

// ---- abstraction: a revocation is identified by (serial, expires); revocation_date is the clock ----
pub open spec fn rev_id(r: Revocation) -> (Serial, Time) { (r.serial, r.expires) }
impl Revocations {
    pub open spec fn has(&self, id: (Serial, Time)) -> bool { exists |i: int| 0 <= i < self.0@.len() && rev_id(#[trigger] self.0@[i]) == id }
}
impl<T> PublishedItem<T> {
    pub open spec fn rid(&self) -> (Serial, Time) { (self.serial, self.expires) }
}
''')
    U.struct(CA, 'Revocation', derive=['Clone'])
    U.struct(CA, 'Revocations', derive=['Clone'], default_ensures=[('empty', 'forall |id: (Serial, Time)| !r.has(id)')])
    U.struct(CA, 'CertInfo', derive=['Clone'])
    U.struct(CH, 'ChildCertificateUpdates', clone='none', derive=[])
    U.struct(PUB, 'PublishedItem', clone='none', derive=[])
    U.struct(PUB, 'KeyObjectSet', clone='none', derive=[])
    U.struct(API_ASPA, 'AspaDefinition', clone='none', derive=[])
    U.struct(ASPA, 'AspaInfo', clone='none', derive=[])
    U.struct(ASPA, 'AspaObjectsUpdates', clone='none', derive=[])
    U.struct(BGP, 'BgpSecCertInfo', clone='none', derive=[])
    U.struct(BGP, 'BgpSecCertificateUpdates', clone='none', derive=[])
    U.struct(API_BGP, 'BgpSecAsnKey', derive=['Clone', 'Copy'])
    U.impl('impl AspaInfo', [
        U.fn(ASPA, 'AspaInfo', 'customer', ensures=[('is_field', 'r == self.definition.customer')]),
        U.fn(ASPA, 'AspaInfo', 'expires', ensures=[('is_not_after', 'r == not_after(self.validity)')]),
    ])
    U.impl('impl AspaObjectsUpdates', [
        U.fn(ASPA, 'AspaObjectsUpdates', 'updated', ensures=[('is_field', 'r@ == self.updated@')]),
        U.fn(ASPA, 'AspaObjectsUpdates', 'removed', ensures=[('is_field', 'r@ == self.removed@')]),
    ])
    U.impl('impl BgpSecCertInfo', [
        U.fn(BGP, 'BgpSecCertInfo', 'name', ensures=[('is_name', 'r == bgpsec_name(self.asn, pk_ki(self.public_key))')]),
    ])
    U.impl('impl BgpSecCertificateUpdates', [
        U.fn(BGP, 'BgpSecCertificateUpdates', 'updated', ensures=[('is_field', 'r@ == self.updated@')]),
        U.fn(BGP, 'BgpSecCertificateUpdates', 'removed', ensures=[('is_field', 'r@ == self.removed@')]),
    ])
    U.add('''impl vstd::std_specs::convert::FromSpecImpl<&BgpSecAsnKey> for ObjectName {
    open spec fn obeys_from_spec() -> bool { true }
    open spec fn from_spec(v: &BgpSecAsnKey) -> ObjectName { bgpsec_name(v.asn, v.key) }
}''')
    U.impl('impl From<&BgpSecAsnKey> for ObjectName', [
        U.fn(CA, 'ObjectName', 'from', trait_full='From<&BgpSecAsnKey>', ensures=[('is_name', 'r == bgpsec_name(asn_key.asn, asn_key.key)')]),
    ])

    U.impl('impl Revocation', [
        U.fn(CA, 'Revocation', 'new', ensures=[('fields', 'r.serial == serial, r.expires == expires')]),
    ])
    U.impl('impl Revocations', [
        U.fn(CA, 'Revocations', 'add', ensures=[
            ('grows_by_exactly_one', 'forall |id: (Serial, Time)| final(self).has(id) <==> (old(self).has(id) || id == rev_id(revocation))')],
            ghost=[(('body_end',), '''proof {
            let ghost o = old(self).0@; let ghost n = self.0@;
            assert(n == o.push(revocation));
            assert forall |id: (Serial, Time)| self.has(id) <==> (old(self).has(id) || id == rev_id(revocation)) by {
                if old(self).has(id) { let i = choose |i: int| 0 <= i < o.len() && rev_id(#[trigger] o[i]) == id; assert(rev_id(n[i]) == id); }
                if id == rev_id(revocation) { assert(rev_id(n[o.len() as int]) == id); }
                if self.has(id) { let i = choose |i: int| 0 <= i < n.len() && rev_id(#[trigger] n[i]) == id; if i < o.len() { assert(rev_id(o[i]) == id); } }
            }
        }''')]),
    ])
    U.impl('impl Revocations', [
        # the predicate handed to iter().partition (closure body lifted verbatim, R15): an entry is kept exactly while it has not expired
        U.closure_fn(CA, 'Revocations', 'remove_expired', 0, 'vx_keep_revocation', '(r: &&Revocation) -> (b: bool)',
                     ensures=[('kept_exactly_while_not_expired', 'b == !expired(r.expires)')]),
        # iter().partition itself is outside engine V; the set-level contract of the function is ASSUMED (its predicate is verified above)
        U.fn(CA, 'Revocations', 'remove_expired', external_body=True, ensures=[
            ('keeps_unexpired', 'forall |id: (Serial, Time)| old(self).has(id) && !expired(id.1) ==> final(self).has(id)'),
            ('adds_nothing', 'forall |id: (Serial, Time)| final(self).has(id) ==> old(self).has(id)')]),
    ])
    U.impl('impl<T> CertInfo<T>', [
        U.fn(CA, 'CertInfo', 'expires', ensures=[('is_not_after', 'r == not_after(self.validity)')]),
    ])
    U.impl('impl<T> PublishedItem<T>', [
        U.fn(PUB, 'PublishedItem', 'new', ensures=[
            ('fields', 'r.name == name, r.base64 == base64, r.serial == serial, r.expires == expires, r.hash == hash_of(base64)')]),
        U.fn(PUB, 'PublishedItem', 'revoke', ensures=[('same_identity', 'rev_id(r) == self.rid()')]),
    ])
    U.impl('impl PublishedObject', [
        U.fn(PUB, 'PublishedObject', 'for_cert_info', ensures=[
            ('fields', 'r.name == cert.name, r.serial == cert.serial, r.expires == not_after(cert.validity)')]),
        U.fn(PUB, 'PublishedObject', 'for_aspa', ensures=[
            ('fields', 'r.name == name, r.serial == aspa_info.serial, r.expires == not_after(aspa_info.validity)')]),
        U.fn(PUB, 'PublishedObject', 'for_bgpsec_cert_info', ensures=[
            ('fields', 'r.name == bgpsec_name(cert.asn, pk_ki(cert.public_key)), r.serial == cert.serial, r.expires == cert.expires')]),
    ])
    inv0 = [
        ('pre', 'obeys_key_model::<ObjectName>()'),
        ('monotone', 'forall |id: (Serial, Time)| old(self).revocations.has(id) ==> self.revocations.has(id)'),
        ('superseded_revoked', '''forall |n: ObjectName| old(self).published_objects@.contains_key(n)
                    && (!self.published_objects@.contains_key(n)
                        || self.published_objects@[n] != old(self).published_objects@[n])
                    ==> #[trigger] self.revocations.has(old(self).published_objects@[n].rid())'''),
    ]
    post = [
        ('monotone', 'forall |id: (Serial, Time)| old(self).revocations.has(id) ==> final(self).revocations.has(id)'),
        ('superseded_revoked', '''forall |n: ObjectName| old(self).published_objects@.contains_key(n)
                && (!final(self).published_objects@.contains_key(n)
                    || final(self).published_objects@[n] != old(self).published_objects@[n])
                ==> #[trigger] final(self).revocations.has(old(self).published_objects@[n].rid())'''),
    ]
    inv = [
        ('pre', 'obeys_key_model::<ObjectName>(), cert_updates.unsuspended@.len() == 0'),
        ('monotone', 'forall |id: (Serial, Time)| old(self).revocations.has(id) ==> self.revocations.has(id)'),
        ('superseded_revoked', '''forall |n: ObjectName| old(self).published_objects@.contains_key(n)
                    && (!self.published_objects@.contains_key(n)
                        || self.published_objects@[n] != old(self).published_objects@[n])
                    ==> #[trigger] self.revocations.has(old(self).published_objects@[n].rid())'''),
    ]
    U.impl('impl KeyObjectSet', [
        U.fn(PUB, 'KeyObjectSet', 'update_certs',
             requires=[('key_model', 'obeys_key_model::<ObjectName>()'),
                       ('no_legacy_unsuspend', 'cert_updates.unsuspended@.len() == 0')],
             ensures=[
                 ('monotone', 'forall |id: (Serial, Time)| old(self).revocations.has(id) ==> final(self).revocations.has(id)'),
                 ('superseded_revoked', '''forall |n: ObjectName| old(self).published_objects@.contains_key(n)
                && (!final(self).published_objects@.contains_key(n)
                    || final(self).published_objects@[n] != old(self).published_objects@[n])
                ==> #[trigger] final(self).revocations.has(old(self).published_objects@[n].rid())'''),
             ],
             loops={k: {'invariant': inv} for k in range(4)}),
        U.fn(PUB, 'KeyObjectSet', 'update_aspas', requires=[('key_model', 'obeys_key_model::<ObjectName>()')], ensures=post,
             loops={k: {'invariant': inv0} for k in range(2)}),
        U.fn(PUB, 'KeyObjectSet', 'update_bgpsec_certs', requires=[('key_model', 'obeys_key_model::<ObjectName>()')], ensures=post,
             loops={k: {'invariant': inv0} for k in range(2)}),
        U.fn(PUB, 'KeyObjectSet', 'retire',
             requires=[('key_model', 'obeys_key_model::<ObjectName>()')],
             ensures=[
                 ('always_ok', 'r is Ok'),
                 ('publishes_nothing', 'r is Ok ==> r->Ok_0.published_objects@.len() == 0'),
                 ('everything_revoked', '''r is Ok ==> forall |n: ObjectName| self.published_objects@.contains_key(n) && !expired(self.published_objects@[n].expires)
                    ==> #[trigger] r->Ok_0.revocations.has(self.published_objects@[n].rid())'''),
                 ('keeps_unexpired_revocations', 'r is Ok ==> forall |id: (Serial, Time)| self.revocations.has(id) && !expired(id.1) ==> r->Ok_0.revocations.has(id)'),
                 ('same_key', 'r is Ok ==> r->Ok_0.signing_cert == self.signing_cert && r->Ok_0.revision == self.revision'),
             ],
             loops={0: {'iter': 'vx_it', 'invariant': [
                 ('pre', 'obeys_key_model::<ObjectName>()'),
                 ('all', 'vx_it.seq().unref().to_set() == self.published_objects@.values()'),
                 ('monotone', 'forall |id: (Serial, Time)| self.revocations.has(id) ==> revocations.has(id)'),
                 ('revoked_or_to_come', '''forall |v: PublishedObject| #![trigger revocations.has(v.rid())] self.published_objects@.values().contains(v) ==> revocations.has(v.rid())
                    || (exists |j: int| vx_it.index@ <= j < vx_it.seq().len() && #[trigger] vx_it.seq().unref()[j] == v)'''),
             ]}},
             ghost=[(('after_loop', 0), '''proof {
            assert forall |n: ObjectName| self.published_objects@.contains_key(n) implies #[trigger] revocations.has(self.published_objects@[n].rid()) by {
                assert(self.published_objects@.values().contains(self.published_objects@[n]));
            }
        }''')]),
    ])
    return U
