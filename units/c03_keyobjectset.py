"""C03: KeyObjectSet::update_certs / Revocations::add / PublishedItem::revoke.
Every insert/remove in a key's object set records the superseded object's revocation and never drops one."""
from vxlib import Unit
from units import prelude

PUB = 'src/server/ca/publishing.rs'
CA = 'src/api/ca.rs'
CH = 'src/server/ca/child.rs'


def build():
    U = Unit('c03_keyobjectset', 'C03', 'object-set updates record the revocation of every superseded object')
    prelude.hashmap(U)
    U.opaque('ObjectName', 'Clone, PartialEq, Eq, Hash')
    U.opaque('Base64', 'Clone')
    U.opaque('Hash', 'Clone, Copy, PartialEq, Eq')
    U.opaque('Serial', 'Clone, Copy, PartialEq, Eq')
    U.opaque('Time', 'Clone, Copy, PartialEq, Eq')
    U.opaque('Validity', 'Clone, Copy, PartialEq, Eq')
    U.opaque('KeyIdentifier', 'Clone, Copy, PartialEq, Eq, Hash')
    for t in ['ResourceSet', 'RequestResourceLimit', 'Name', 'CsrInfo', 'RepositoryContact', 'PublishedManifest', 'PublishedCrl',
              'Issued', 'Suspended', 'Unsuspended', 'Received', 'PublishedItemOther']:
        U.opaque(t, 'Clone', clone_spec=False)
    U.opaque('ObjectSetRevision', 'Clone, Copy')
    U.opaque('Rsync', 'Clone', module='uri', clone_spec=False)
    U.opaque('Error', '')
    U.outside('''
pub mod rrdp { pub use super::Hash; }
pub type ReceivedCert = CertInfo<Received>;
pub type IssuedCertificate = CertInfo<Issued>;
pub type SuspendedCert = CertInfo<Suspended>;
pub type UnsuspendedCert = CertInfo<Unsuspended>;
pub type PublishedObject = PublishedItem<PublishedItemOther>;
pub type KrillResult<T> = Result<T, Error>;
impl ObjectName { pub fn from_key(_ki: &KeyIdentifier, _extension: &str) -> Self { unimplemented!() } }
impl Base64 { pub fn to_hash(&self) -> Hash { unimplemented!() } }
impl Validity { pub fn not_after(&self) -> Time { unimplemented!() } }
impl Time { pub fn now() -> Time { unimplemented!() } }
''')
    U.add('''
pub uninterp spec fn name_of_key(k: KeyIdentifier, ext: Seq<char>) -> ObjectName;
pub uninterp spec fn hash_of(b: Base64) -> Hash;
pub uninterp spec fn not_after(v: Validity) -> Time;
pub assume_specification [ObjectName::from_key] (ki: &KeyIdentifier, extension: &str) -> (r: ObjectName)
    ensures r == name_of_key(*ki, extension@);
pub assume_specification [Base64::to_hash] (b: &Base64) -> (r: Hash) ensures r == hash_of(*b);
pub assume_specification [Validity::not_after] (v: &Validity) -> (r: Time) ensures r == not_after(*v);
pub assume_specification [Time::now] () -> (r: Time);

// ---- abstraction: a revocation is identified by (serial, expires); revocation_date is the clock ----
pub open spec fn rev_id(r: Revocation) -> (Serial, Time) { (r.serial, r.expires) }
impl Revocations {
    pub open spec fn has(&self, id: (Serial, Time)) -> bool { exists |i: int| 0 <= i < self.0@.len() && rev_id(#[trigger] self.0@[i]) == id }
}
impl<T> PublishedItem<T> {
    pub open spec fn rid(&self) -> (Serial, Time) { (self.serial, self.expires) }
}
''')
    U.struct(CA, 'Revocation', clone='none', derive=[])
    U.struct(CA, 'Revocations', clone='none', derive=[])
    U.struct(CA, 'CertInfo', clone='none', derive=[])
    U.struct(CH, 'ChildCertificateUpdates', clone='none', derive=[])
    U.struct(PUB, 'PublishedItem', clone='none', derive=[])
    U.struct(PUB, 'KeyObjectSet', clone='none', derive=[])

    U.impl('impl Revocation', [
        U.fn(CA, 'Revocation', 'new', ensures=[('fields', 'r.serial == serial, r.expires == expires')]),
    ])
    U.impl('impl Revocations', [
        U.fn(CA, 'Revocations', 'add', ensures=[
            ('grows_by_exactly_one', 'forall |id: (Serial, Time)| final(self).has(id) <==> (old(self).has(id) || id == rev_id(revocation))')],
            ghost=[(('body_end',), '''proof {
            let ghost o = old(self).0@; let ghost n = self.0@;
            assert(n == o.push(revocation));
            assert forall |id: (Serial, Time)| self.has(id) <==> (old(self).has(id) || id == rev_id(revocation)) by {
                if old(self).has(id) { let i = choose |i: int| 0 <= i < o.len() && rev_id(#[trigger] o[i]) == id; assert(rev_id(n[i]) == id); }
                if id == rev_id(revocation) { assert(rev_id(n[o.len() as int]) == id); }
                if self.has(id) { let i = choose |i: int| 0 <= i < n.len() && rev_id(#[trigger] n[i]) == id; if i < o.len() { assert(rev_id(o[i]) == id); } }
            }
        }''')]),
    ])
    U.impl('impl<T> CertInfo<T>', [
        U.fn(CA, 'CertInfo', 'expires', ensures=[('is_not_after', 'r == not_after(self.validity)')]),
    ])
    U.impl('impl<T> PublishedItem<T>', [
        U.fn(PUB, 'PublishedItem', 'new', ensures=[
            ('fields', 'r.name == name, r.base64 == base64, r.serial == serial, r.expires == expires, r.hash == hash_of(base64)')]),
        U.fn(PUB, 'PublishedItem', 'revoke', ensures=[('same_identity', 'rev_id(r) == self.rid()')]),
    ])
    U.impl('impl PublishedObject', [
        U.fn(PUB, 'PublishedObject', 'for_cert_info', ensures=[
            ('fields', 'r.name == cert.name, r.serial == cert.serial, r.expires == not_after(cert.validity)')]),
    ])
    inv = [
        ('pre', 'obeys_key_model::<ObjectName>(), cert_updates.unsuspended@.len() == 0'),
        ('monotone', 'forall |id: (Serial, Time)| old(self).revocations.has(id) ==> self.revocations.has(id)'),
        ('superseded_revoked', '''forall |n: ObjectName| old(self).published_objects@.contains_key(n)
                    && (!self.published_objects@.contains_key(n)
                        || self.published_objects@[n] != old(self).published_objects@[n])
                    ==> #[trigger] self.revocations.has(old(self).published_objects@[n].rid())'''),
    ]
    U.impl('impl KeyObjectSet', [
        U.fn(PUB, 'KeyObjectSet', 'update_certs',
             requires=[('key_model', 'obeys_key_model::<ObjectName>()'),
                       ('no_legacy_unsuspend', 'cert_updates.unsuspended@.len() == 0')],
             ensures=[
                 ('monotone', 'forall |id: (Serial, Time)| old(self).revocations.has(id) ==> final(self).revocations.has(id)'),
                 ('superseded_revoked', '''forall |n: ObjectName| old(self).published_objects@.contains_key(n)
                && (!final(self).published_objects@.contains_key(n)
                    || final(self).published_objects@[n] != old(self).published_objects@[n])
                ==> #[trigger] final(self).revocations.has(old(self).published_objects@[n].rid())'''),
             ],
             loops={k: {'invariant': inv} for k in range(4)}),
    ])
    return U
