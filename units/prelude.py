"""Shared prelude atoms for engine V units: opaque external types and ASSUMED specs of external functions.
Every line emitted here that contains external_body / assume_specification / uninterp is listed in the
evidence of the unit that uses it (mechanical scan of the assembled unit)."""

def hashmap(U, get_mut=False):
    U.outside('use vstd::std_specs::hash::*;\nuse std::collections::HashMap;')
    if get_mut:
        U.feature('allocator_api', 'sized_hierarchy')
        U.add(GET_MUT)

GET_MUT = '''
pub assume_specification<'a, K, V, S, A, Q> [std::collections::HashMap::<K, V, S, A>::get_mut] (m: &'a mut std::collections::HashMap<K, V, S, A>, k: &Q) -> (r: std::option::Option<&'a mut V>)
            where
            A: std::alloc::Allocator,
            K: std::cmp::Eq + std::hash::Hash + std::borrow::Borrow<Q>,
            Q: std::marker::MetaSized + std::hash::Hash + std::cmp::Eq + ?Sized,
            S: std::hash::BuildHasher,
    ensures
        obeys_key_model::<K>() && builds_valid_hashers::<S>() ==> (
        match r {
            Some(v) => contains_borrowed_key(old(m)@, k) && maps_borrowed_key_to_value(old(m)@, k, *v)
                && (forall |kk: K| #[trigger] final(m)@.contains_key(kk) <==> old(m)@.contains_key(kk))
                && (forall |kk: K| old(m)@.contains_key(kk) && !maps_borrowed_key_to_value(old(m)@.restrict(set![kk]), k, old(m)@[kk]) ==> #[trigger] final(m)@[kk] == old(m)@[kk])
                && maps_borrowed_key_to_value(final(m)@, k, *final(v)),
            None => !contains_borrowed_key(old(m)@, k) && final(m)@ == old(m)@,
        });
'''

def strings(U):
    """R1/R2 support: opaque string / log_enabled"""
    U.outside('pub fn vx_string() -> String { String::new() }\npub fn vx_log_enabled() -> bool { false }')
    U.add('pub assume_specification [vx_string] () -> (r: String);\npub assume_specification [vx_log_enabled] () -> (r: bool);')


def time(U):
    """opaque Time / Duration with the operators krill uses on them (results unconstrained: time is an input)"""
    U.outside('''
#[derive(Clone, Copy, PartialEq, PartialOrd)] pub struct Time(pub i64);
#[derive(Clone, Copy, PartialEq, PartialOrd)] pub struct Duration(pub i64);
impl std::ops::Add<Duration> for Time { type Output = Time; fn add(self, _d: Duration) -> Time { unimplemented!() } }
impl std::ops::Sub<Duration> for Time { type Output = Time; fn sub(self, _d: Duration) -> Time { unimplemented!() } }
impl Time { pub fn now() -> Time { unimplemented!() } }
impl Duration { pub fn seconds(_s: i64) -> Duration { unimplemented!() } pub fn hours(_s: i64) -> Duration { unimplemented!() } }
''')
    U.add('''
#[verifier::external_type_specification] #[verifier::external_body] pub struct ExTime(Time);
#[verifier::external_type_specification] #[verifier::external_body] pub struct ExDuration(Duration);
pub uninterp spec fn time_plus(t: Time, d: Duration) -> Time;
pub uninterp spec fn time_minus(t: Time, d: Duration) -> Time;
impl vstd::std_specs::ops::AddSpecImpl<Duration> for Time {
    open spec fn obeys_add_spec() -> bool { true }
    open spec fn add_req(self, rhs: Duration) -> bool { true }
    open spec fn add_spec(self, rhs: Duration) -> Time { time_plus(self, rhs) }
}
impl vstd::std_specs::ops::SubSpecImpl<Duration> for Time {
    open spec fn obeys_sub_spec() -> bool { true }
    open spec fn sub_req(self, rhs: Duration) -> bool { true }
    open spec fn sub_spec(self, rhs: Duration) -> Time { time_minus(self, rhs) }
}
pub assume_specification [<Time as std::ops::Add<Duration>>::add] (t: Time, d: Duration) -> (r: Time);
pub assume_specification [<Time as std::ops::Sub<Duration>>::sub] (t: Time, d: Duration) -> (r: Time);
pub assume_specification [<Time as PartialOrd>::partial_cmp] (a: &Time, b: &Time) -> (r: Option<std::cmp::Ordering>);
pub assume_specification [<Duration as PartialOrd>::partial_cmp] (a: &Duration, b: &Duration) -> (r: Option<std::cmp::Ordering>);
pub assume_specification [<Time as PartialEq>::eq] (a: &Time, b: &Time) -> (r: bool);
pub assume_specification [<Duration as PartialEq>::eq] (a: &Duration, b: &Duration) -> (r: bool);
pub assume_specification [Time::now] () -> (r: Time);
pub assume_specification [Duration::seconds] (s: i64) -> (r: Duration);
pub assume_specification [Duration::hours] (s: i64) -> (r: Duration);
''')


def string_eq(U):
    """ASSUMED axiom: std String equality is equality of the character sequences (lets Option<&String> ==/!= be decided)"""
    U.outside('use vstd::std_specs::cmp::*;')
    U.add('''
#[verifier::external_body]
pub broadcast proof fn axiom_string_eq(a: String, b: String)
    ensures #[trigger] a.eq_spec(&b) == (a@ == b@), <String as PartialEqSpec>::obeys_eq_spec() {}
#[verifier::external_body]
pub proof fn axiom_string_obeys() ensures <String as PartialEqSpec>::obeys_eq_spec() {}
pub open spec fn ov(o: Option<String>) -> Option<Seq<char>> { match o { None => None, Some(s) => Some(s@) } }
''')


def int_conversions(U):
    """ASSUMED axiom: `u32 -> i64` via Into is the numeric cast (std's lossless From impl)"""
    U.outside('use vstd::std_specs::convert::*;')
    U.add('''
#[verifier::external_body]
pub broadcast proof fn axiom_i64_from_u32(x: u32)
    ensures <i64 as FromSpec<u32>>::obeys_from_spec(), #[trigger] <i64 as FromSpec<u32>>::from_spec(x) == x as i64 {}
#[verifier::external_body]
pub proof fn axiom_i64_from_u32_obeys() ensures <i64 as FromSpec<u32>>::obeys_from_spec() {}
''')


def option_helpers(U):
    """std Option adapters that Verus has no spec for; ASSUMED to be what std documents (lets equivalent rewrites verify)"""
    U.add('''
pub assume_specification<T: Copy> [Option::<&T>::copied] (o: Option<&T>) -> (r: Option<T>)
    ensures r == (match o { Some(x) => Some(*x), None => None::<T> });
''')


def format_concat(U):
    """support for R2c: format! as concatenation of literal pieces and Display strings of str-like arguments"""
    U.outside('''
use std::borrow::Cow;
pub trait VxS { fn vx_s(&self) -> String; }
impl VxS for String { fn vx_s(&self) -> String { self.clone() } }
impl<'a> VxS for &'a str { fn vx_s(&self) -> String { self.to_string() } }
impl<'a> VxS for Cow<'a, str> { fn vx_s(&self) -> String { self.to_string() } }
pub fn vx_lit(s: &'static str) -> String { s.to_string() }
pub fn vx_cat(mut a: String, b: String) -> String { a.push_str(&b); a }
''')
    U.add('''
#[verifier::external_trait_specification] pub trait ExVxS { type ExternalTraitSpecificationFor: VxS; fn vx_s(&self) -> String; }
/// ASSUMED: Display of a str / String / Cow<str> is the string itself; format! concatenates pieces and arguments in order
pub open spec fn cow_str_view(c: Cow<'_, str>) -> Seq<char> { match c { Cow::Borrowed(s) => s@, Cow::Owned(s) => s@ } }
pub assume_specification [<String as VxS>::vx_s] (s: &String) -> (r: String) ensures r@ == s@;
pub assume_specification<'a> [<&'a str as VxS>::vx_s] (s: &&'a str) -> (r: String) ensures r@ == (*s)@;
pub assume_specification<'a> [<Cow<'a, str> as VxS>::vx_s] (s: &Cow<'a, str>) -> (r: String) ensures r@ == cow_str_view(*s);
pub assume_specification [vx_lit] (s: &'static str) -> (r: String) ensures r@ == s@;
pub assume_specification [vx_cat] (a: String, b: String) -> (r: String) ensures r@ == a@ + b@;
''')


def for_each_mut(U):
    """R26 support: `E.iter_mut().for_each(F)` is read as a call of this function.  ASSUMED (std semantics of slice::IterMut +
    Iterator::for_each): F is called once on every element, in place; the vector keeps its length."""
    U.add('''
#[verifier::external_body]
pub fn vx_for_each_mut<T, F: FnMut(&mut T)>(v: &mut Vec<T>, f: F)
    requires forall |x: &mut T| #[trigger] call_requires(f, (x,)),
    ensures final(v)@.len() == old(v)@.len(),
        forall |i: int| #![trigger old(v)@[i]] 0 <= i < old(v)@.len() ==> exists |x: &mut T| #![trigger call_ensures(f, (x,), ())]
            *x == old(v)@[i] && *final(x) == final(v)@[i] && call_ensures(f, (x,), ()),
{ v.iter_mut().for_each(f) }
''')


def map_any(U):
    """R27 support: `M.iter().any(F)` over a HashMap is read as a call of this function.  ASSUMED (std semantics of hash_map::Iter +
    Iterator::any): the result is true iff F answers true for some entry of the map, each entry handed to F as (&key, &value)."""
    U.add('''
#[verifier::external_body]
pub fn vx_map_any<K, V, F: Fn((&K, &V)) -> bool>(m: &HashMap<K, V>, f: F) -> (r: bool)
    requires forall |k: &K, v: &V| #[trigger] call_requires(f, ((k, v),)),
    ensures r ==> (exists |k: K| #[trigger] m@.contains_key(k) && call_ensures(f, ((&k, &m@[k]),), true)),
        !r ==> (forall |k: K| #[trigger] m@.contains_key(k) ==> call_ensures(f, ((&k, &m@[k]),), false)),
{ m.iter().any(f) }
''')
