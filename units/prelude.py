"""Shared prelude atoms for engine V units: opaque external types and ASSUMED specs of external functions.
Every line emitted here that contains external_body / assume_specification / uninterp is listed in the
evidence of the unit that uses it (mechanical scan of the assembled unit)."""

def hashmap(U, get_mut=False):
    U.outside('use vstd::std_specs::hash::*;\nuse std::collections::HashMap;')
    if get_mut:
        U.feature('allocator_api', 'sized_hierarchy')
        U.add(GET_MUT)

GET_MUT = '''
pub assume_specification<'a, K, V, S, A, Q> [std::collections::HashMap::<K, V, S, A>::get_mut] (m: &'a mut std::collections::HashMap<K, V, S, A>, k: &Q) -> (r: std::option::Option<&'a mut V>)
            where
            A: std::alloc::Allocator,
            K: std::cmp::Eq + std::hash::Hash + std::borrow::Borrow<Q>,
            Q: std::marker::MetaSized + std::hash::Hash + std::cmp::Eq + ?Sized,
            S: std::hash::BuildHasher,
    ensures
        obeys_key_model::<K>() && builds_valid_hashers::<S>() ==> (
        match r {
            Some(v) => contains_borrowed_key(old(m)@, k) && maps_borrowed_key_to_value(old(m)@, k, *v)
                && (forall |kk: K| #[trigger] final(m)@.contains_key(kk) <==> old(m)@.contains_key(kk))
                && (forall |kk: K| old(m)@.contains_key(kk) && !maps_borrowed_key_to_value(old(m)@.restrict(set![kk]), k, old(m)@[kk]) ==> #[trigger] final(m)@[kk] == old(m)@[kk])
                && maps_borrowed_key_to_value(final(m)@, k, *final(v)),
            None => !contains_borrowed_key(old(m)@, k) && final(m)@ == old(m)@,
        });
'''

def strings(U):
    """R1/R2 support: opaque string / log_enabled"""
    U.outside('pub fn vx_string() -> String { String::new() }\npub fn vx_log_enabled() -> bool { false }')
    U.add('pub assume_specification [vx_string] () -> (r: String);\npub assume_specification [vx_log_enabled] () -> (r: bool);')
