"""C16 (client-chosen numbers in a path): AggregateStore::command_history_for_records -- `rows` and `offset` come from
GET /api/v1/cas/<ca>/history/commands/<rows>/<offset> as any usize.  No arithmetic overflow for any value, and memory is never
reserved by the client's number: what is reserved up front is bounded by the number of records that exist (finding F11).
The page returned is the matching records from position `offset`, at most `rows` of them, and `total` counts all matches."""
from vxlib import Unit
from units import prelude

ST = 'src/commons/eventsourcing/store.rs'
HI = 'src/api/history.rs'

SPEC = r'''
pub uninterp spec fn rec_matches(r: CommandHistoryRecord, c: CommandHistoryCriteria) -> bool;
pub assume_specification [CommandHistoryRecord::matches] (r: &CommandHistoryRecord, c: &CommandHistoryCriteria) -> (b: bool) ensures b == rec_matches(*r, *c);
/// a reservation is an obligation: Vec::with_capacity(n) panics ("capacity overflow") or aborts (allocation failure) for n chosen
/// freely by a client; it is safe for n bounded by the length of a slice that already exists
pub uninterp spec fn reserve_bound() -> usize;
pub assume_specification<T> [vx_reserve::<T>] (n: usize) -> (v: Vec<T>)
    requires n <= reserve_bound()
    ensures v@.len() == 0;
pub open spec fn count_matching(rs: Seq<CommandHistoryRecord>, c: CommandHistoryCriteria, n: int) -> int decreases n {
    if n <= 0 { 0 } else { count_matching(rs, c, n - 1) + if rec_matches(rs[n - 1], c) { 1int } else { 0int } }
}
pub proof fn lemma_count_bounded(rs: Seq<CommandHistoryRecord>, c: CommandHistoryCriteria, n: int)
    requires 0 <= n ensures 0 <= count_matching(rs, c, n) <= n decreases n
{ if n > 0 { lemma_count_bounded(rs, c, n - 1); } }
/// the matching records among the first n, in order
pub open spec fn matching(rs: Seq<CommandHistoryRecord>, c: CommandHistoryCriteria, n: int) -> Seq<CommandHistoryRecord> decreases n {
    if n <= 0 { Seq::empty() } else if rec_matches(rs[n - 1], c) { matching(rs, c, n - 1).push(rs[n - 1]) } else { matching(rs, c, n - 1) }
}
pub proof fn lemma_matching_len(rs: Seq<CommandHistoryRecord>, c: CommandHistoryCriteria, n: int)
    requires 0 <= n ensures matching(rs, c, n).len() == count_matching(rs, c, n) decreases n
{ if n > 0 { lemma_matching_len(rs, c, n - 1); } }
// ---- C07: the history lists every recorded command in order ----
/// the history record of the command stored under version v, if one is stored (AggregateStore::get_command + into_history_record, ASSUMED)
pub uninterp spec fn stored_rec(s: AggregateStore, id: MyHandle, v: u64) -> Option<CommandHistoryRecord>;
pub assume_specification [AggregateStore::vx_get_record] (s: &AggregateStore, id: &MyHandle, v: u64) -> (r: Result<CommandHistoryRecord, StoreError>)
    ensures match r { Ok(c) => stored_rec(*s, *id, v) == Some(c) && c.version == v, Err(_) => stored_rec(*s, *id, v) is None };
/// what is held is the history from the first command on, without a gap: entry i is the record of command i + 1
pub open spec fn complete_from_the_first(rs: Seq<CommandHistoryRecord>, s: AggregateStore, id: MyHandle) -> bool {
    forall |i: int| 0 <= i < rs.len() ==> stored_rec(s, id, (i + 1) as u64) == Some(#[trigger] rs[i]) && rs[i].version == i + 1
}
pub open spec fn min_int(a: int, b: int) -> int { if a <= b { a } else { b } }
/// the page: the matches from position `offset`, at most `rows` of them
pub open spec fn page_of(ms: Seq<CommandHistoryRecord>, offset: int, rows: int) -> Seq<CommandHistoryRecord> {
    ms.subrange(min_int(offset, ms.len() as int), min_int(offset + rows, ms.len() as int))
}
'''


def build():
    U = Unit('c16_history', 'C16', 'command-history paging: no overflow for any rows / offset from the path; nothing reserved by the client\'s number; page = matches from offset, at most rows; total = all matches'.replace("\\'", ''))
    prelude.strings(U)
    for t in ['MyHandle', 'CommandSummary', 'CommandHistoryResult']:
        U.opaque(t, 'Clone')
    U.outside('''
impl CommandHistoryRecord { pub fn matches(&self, _c: &CommandHistoryCriteria) -> bool { unimplemented!() } }
pub struct AggregateStore;
pub struct StoreError(pub u8);
impl AggregateStore { pub fn vx_get_record(&self, _id: &MyHandle, _v: u64) -> Result<CommandHistoryRecord, StoreError> { unimplemented!() } }
/// stands for `Vec::with_capacity(n)`, with the proof obligation n <= reserve_bound() (fixed by the caller's contract)
pub fn vx_reserve<T>(_n: usize) -> Vec<T> { unimplemented!() }
''')
    U.add('#[verifier::external_type_specification] #[verifier::external_body] pub struct ExAggregateStore(AggregateStore);\n#[verifier::external_type_specification] #[verifier::external_body] pub struct ExStoreError(StoreError);\npub type AggregateStoreError = StoreError;')
    U.struct(HI, 'CommandHistoryRecord', derive=['Clone'])
    U.struct(HI, 'CommandHistoryCriteria', derive=[])
    U.struct(HI, 'CommandHistory', derive=[])
    U.add(SPEC)
    U.impl('impl AggregateStore', [
        # C07 (history clause): whatever is held -- an empty list, or the list the history cache kept from an earlier request -- is
        # brought up to the first version that is not stored, starting from the FIRST command; nothing is skipped
        U.fn(ST, 'AggregateStore', 'update_history_records',
             subst=[('self.get_command(id, version)', 'self.vx_get_record(id, version)', 'R14'), ('command.into_history_record()', 'command', 'R14')],
             requires=[('held_records_are_complete_from_the_first', 'complete_from_the_first(old(records)@, *self, *id)'),
                       ('fewer_than_2_64_commands', 'old(records)@.len() < u64::MAX - 1 && forall |v: u64| stored_rec(*self, *id, v) is Some ==> v < u64::MAX - 1')],
             ensures=[('every_recorded_command_from_the_first_is_listed', 'r is Ok ==> complete_from_the_first(final(records)@, *self, *id)'),
                      ('caught_up_to_the_first_version_that_is_not_stored', 'r is Ok ==> stored_rec(*self, *id, (final(records)@.len() + 1) as u64) is None'),
                      ('held_records_kept', 'final(records)@.len() >= old(records)@.len() && final(records)@.subrange(0, old(records)@.len() as int) == old(records)@')],
             loops={0: {'decreases': 'u64::MAX - version', 'invariant': [
                 ('complete', 'complete_from_the_first(records@, *self, *id) && version == records@.len() + 1 && records@.len() < u64::MAX - 1 && (forall |v: u64| stored_rec(*self, *id, v) is Some ==> v < u64::MAX - 1)'),
                 ('kept', 'records@.len() >= old(records)@.len() && records@.subrange(0, old(records)@.len() as int) == old(records)@'),
             ], 'ensures': [('caught_up', 'complete_from_the_first(records@, *self, *id) && stored_rec(*self, *id, (records@.len() + 1) as u64) is None && records@.len() >= old(records)@.len() && records@.subrange(0, old(records)@.len() as int) == old(records)@')]}},
             ghost=[(('loop_end', 0), 'proof { assert(records@.subrange(0, old(records)@.len() as int) =~= old(records)@); }')]),
        U.fn(ST, 'AggregateStore', 'command_history_for_records', attrs=['#[verifier::loop_isolation(false)]'],
             subst=[('Vec::with_capacity(', 'vx_reserve(', 'R14')],
             requires=[('what_may_be_reserved_up_front', 'reserve_bound() == records@.len()')],
             ensures=[
                 ('offset_echoed', 'r.offset == criteria.offset'),
                 ('total_counts_all_matches', 'r.total == count_matching(records@, criteria, records@.len() as int)'),
                 ('page_is_the_matches_from_offset_in_order_at_most_rows', '''r.commands@ == page_of(matching(records@, criteria, records@.len() as int), criteria.offset as int,
                        (if criteria.rows_limit is Some { criteria.rows_limit->Some_0 as int } else { records@.len() as int }))'''),
                 ('page_is_bounded', '''r.commands@.len() <= records@.len()
                        && (criteria.rows_limit is Some ==> r.commands@.len() <= criteria.rows_limit->Some_0)
                        && r.commands@.len() + criteria.offset <= r.total || r.commands@.len() == 0'''),
             ],
             loops={0: {'iter': 'vx_it', 'invariant': [
                 ('list', 'vx_it.seq().unref() == records@'),
                 ('counts', 'total as int == count_matching(records@, criteria, vx_it.index@ as int) && skipped as int <= total as int && skipped as int <= offset as int'),
                 ('still_skipping_or_done', '(skipped as int) < (offset as int) ==> skipped as int == total as int && commands@.len() == 0'),
                 ('page', 'commands@.len() <= rows && commands@.len() as int + skipped as int <= total as int && commands@.len() <= vx_it.index@'),
                 ('page_so_far', 'commands@ == page_of(matching(records@, criteria, vx_it.index@ as int), offset as int, rows as int) && skipped as int == min_int(offset as int, total as int)'),
             ]}},
             ghost=[(('loop_start', 0), 'proof { lemma_matching_len(records@, criteria, vx_it.index@ as int); lemma_matching_len(records@, criteria, vx_it.index@ as int + 1); reveal_with_fuel(matching, 2); lemma_count_bounded(records@, criteria, vx_it.index@ as int); assert(*record == records@[vx_it.index@ as int]); reveal_with_fuel(count_matching, 2); }')]),
    ])
    return U
