"""C02 (convergence kernel): CertAuth::has_pending_requests -- the predicate by which CaManager::ca_sync_parent decides between sending
the open requests to a parent and asking it for the entitlements again.  It answers yes exactly when SOME resource class held under
that parent has an open request (certificate or revocation) -- every class is looked at, not just the first one found.  If a class
with an open request is overlooked, every synchronisation fetches the entitlements again, records the same request once more and
never sends it: the child never converges."""
from vxlib import Unit
from units import prelude

CA = 'src/server/ca/certauth.rs'

SPEC = r'''
pub uninterp spec fn rc_parent(rc: ResourceClass) -> ParentHandle;
pub uninterp spec fn rc_pending(rc: ResourceClass) -> bool;
pub assume_specification [ResourceClass::parent_handle] (rc: &ResourceClass) -> (r: &ParentHandle) ensures *r == rc_parent(*rc);
pub assume_specification [ResourceClass::has_pending_requests] (rc: &ResourceClass) -> (r: bool) ensures r == rc_pending(*rc);
'''


def build():
    U = Unit('c02_pending', 'C02', 'open requests for a parent exist exactly when some class held under that parent has one (every class is looked at)')
    prelude.hashmap(U)
    prelude.strings(U)
    U.opaque('ResourceClassName', 'Clone, PartialEq, Eq, Hash')
    U.opaque('ResourceClass', '')
    U.opaque('ParentHandle', 'Clone, PartialEq, Eq, Hash', eq=True)
    U.outside('''
impl ResourceClass {
    pub fn has_pending_requests(&self) -> bool { unimplemented!() }
    pub fn parent_handle(&self) -> &ParentHandle { unimplemented!() }
}
/// stand-in for CertAuth: the one field the function reads
pub struct CertAuth { pub resources: HashMap<ResourceClassName, ResourceClass> }
''')
    U.add('#[verifier::external_type_specification] pub struct ExCertAuth(CertAuth);')
    U.add(SPEC)
    km = 'obeys_key_model::<ResourceClassName>()'
    U.impl('impl CertAuth', [
        U.fn(CA, 'CertAuth', 'has_pending_requests', values_loops=(0,), attrs=['#[verifier::loop_isolation(false)]'], requires=[('km', km)],
             ensures=[('iff_some_class_under_this_parent_has_an_open_request', '''r == (exists |n: ResourceClassName| #[trigger] self.resources@.contains_key(n)
                        && rc_parent(self.resources@[n]) == *parent && rc_pending(self.resources@[n]))''')],
             loops={0: {'iter': 'vx_it', 'invariant': [
                 ('pairs', '''vx_it.seq().len() == self.resources@.len() && (forall |i: int| 0 <= i < vx_it.seq().len() ==> self.resources@.contains_key(*(#[trigger] vx_it.seq()[i]).0)
                        && self.resources@[*vx_it.seq()[i].0] == *vx_it.seq()[i].1) && vx_it.seq().no_duplicates()'''),
                 ('all_listed', 'forall |n: ResourceClassName| #[trigger] self.resources@.contains_key(n) ==> exists |j: int| 0 <= j < vx_it.seq().len() && *(#[trigger] vx_it.seq()[j]).0 == n'),
                 ('an_open_request_not_seen_yet_is_still_to_come', '''forall |n: ResourceClassName| #[trigger] self.resources@.contains_key(n) && rc_parent(self.resources@[n]) == *parent
                        && rc_pending(self.resources@[n]) ==> exists |j: int| vx_it.index@ <= j < vx_it.seq().len() && *(#[trigger] vx_it.seq()[j]).0 == n'''),
             ]}},
             ghost=[(('loop_start', 0), 'let ghost g_i = vx_it.index@ as int; proof { assert(*rc == *vx_it.seq()[g_i].1); }'),
                    (('loop_end', 0), '''proof {
                assert forall |n: ResourceClassName| #[trigger] self.resources@.contains_key(n) && rc_parent(self.resources@[n]) == *parent && rc_pending(self.resources@[n])
                        implies exists |j: int| g_i + 1 <= j < vx_it.seq().len() && *(#[trigger] vx_it.seq()[j]).0 == n by {
                    let j = choose |j: int| g_i <= j < vx_it.seq().len() && *(#[trigger] vx_it.seq()[j]).0 == n;
                    if j == g_i { assert(self.resources@[n] == *vx_it.seq()[g_i].1); }
                }
            }''')]),
    ])
    return U
