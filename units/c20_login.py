"""C20 (login): config_file::AuthProvider::login, the whole function verbatim -- login succeeds only for credentials whose user
name is, verbatim, a configured user, whose (normalised) password hashes to THAT user's stored hash under THAT user's salt, and
whose role exists and permits login; and the session it issues is for that user's role."""
from vxlib import Unit
from units import prelude

CF = 'src/daemon/http/auth/providers/config_file.rs'
ERR = 'src/commons/error.rs'

OUTSIDE = r'''
use std::sync::Arc;
pub type KrillResult<T> = Result<T, Error>;
pub struct Auth { pub username: String, pub password: String }
impl std::fmt::Debug for scrypt::InvalidParams { fn fmt(&self, _f: &mut std::fmt::Formatter) -> std::fmt::Result { Ok(()) } }
impl std::fmt::Debug for scrypt::InvalidOutputLen { fn fmt(&self, _f: &mut std::fmt::Formatter) -> std::fmt::Result { Ok(()) } }
pub mod hex {
    #[derive(Debug)] pub struct FromHexError(pub u8);
    pub fn decode(_s: &str) -> Result<Vec<u8>, FromHexError> { unimplemented!() }
    pub fn encode(_b: [u8; 32]) -> String { unimplemented!() }
}
pub fn vx_nfkc_trim(_s: &String) -> String { unimplemented!() }
pub fn vx_nfkc(_s: &String) -> String { unimplemented!() }
pub fn vx_weak_salt(_u: &String) -> String { unimplemented!() }
impl AuthProvider { pub fn get_auth(&self, _r: &HyperRequest) -> Option<Auth> { unimplemented!() } }
impl RoleMap { pub fn get(&self, _n: &str) -> Option<Arc<Role>> { unimplemented!() } }
impl Role { pub fn is_allowed(&self, _p: Permission, _r: Option<&MyHandle>) -> bool { unimplemented!() } }
#[derive(Clone, Copy)] pub enum Permission { Login, VxOther }
pub struct SessionSecret { pub role: Arc<str> }
impl SessionCache { pub fn encode(&self, _u: Arc<str>, _s: SessionSecret, _k: &CryptState, _e: Option<Duration>) -> KrillResult<Token> { unimplemented!() } }
pub mod crypt { pub use super::CryptState; }
impl LoggedInUser { pub fn new(_t: Token, _id: Arc<str>, _role: Arc<str>) -> Self { unimplemented!() } }
impl AsRef<str> for Token { fn as_ref(&self) -> &str { unimplemented!() } }
impl From<ApiAuthError> for Error { fn from(_e: ApiAuthError) -> Self { unimplemented!() } }
pub fn vx_str_ne(_a: &String, _b: &str) -> bool { unimplemented!() }
pub struct Session { pub user_id: Arc<str>, pub secrets: SessionSecret }
impl SessionCache { pub fn decode(&self, _t: Token, _k: &CryptState, _add: bool) -> Result<Session, ApiAuthError> { unimplemented!() } }
pub mod httpclient { pub fn get_bearer_token(_r: &super::HyperRequest) -> Option<super::Token> { unimplemented!() } }
impl AuthInfo { pub fn user(_id: Arc<str>, _r: Arc<Role>) -> Self { unimplemented!() } }
pub fn vx_arc_str(_s: String) -> Arc<str> { unimplemented!() }
'''

SPEC = r'''
#[verifier::external_type_specification] pub struct ExAuth(Auth);
pub mod scrypt {
    use super::*;
    pub struct Params(pub u8);
    pub struct InvalidParams(pub u8);
    pub struct InvalidOutputLen(pub u8);
    impl Params {
        pub const RECOMMENDED_LEN: usize = 32;
        #[verifier::external_body] pub fn new(log_n: u8, r: u32, p: u32, len: usize) -> (o: Result<Params, InvalidParams>) ensures o is Ok { unimplemented!() }
    }
    /// stand-in signature: the real one takes `output: &mut [u8]`; both call sites pass `&mut [u8; 32]`
    #[verifier::external_body] pub fn scrypt(password: &[u8], salt: &[u8], params: &Params, output: &mut [u8; 32]) -> (o: Result<(), InvalidOutputLen>)
        ensures o is Ok, final(output)@ == scrypt_of(password@, salt@) { unimplemented!() }
}
#[verifier::external_type_specification] #[verifier::external_body] pub struct ExFromHexError(hex::FromHexError);
#[verifier::external_type_specification] pub struct ExPermission(Permission);
#[verifier::external_type_specification] pub struct ExSessionSecret(SessionSecret);

// ---- assumed externals ----
pub uninterp spec fn auth_of(r: HyperRequest) -> Option<Auth>;
pub assume_specification [AuthProvider::get_auth] (p: &AuthProvider, r: &HyperRequest) -> (a: Option<Auth>) ensures a == auth_of(*r);
/// trim + NFKC normalisation (unicode-normalization), NFKC alone, and the "krill-lagosta-<user>" salt: functions of their input
pub uninterp spec fn nfkc_trim(s: Seq<char>) -> Seq<char>;
pub uninterp spec fn nfkc(s: Seq<char>) -> Seq<char>;
pub uninterp spec fn weak_salt_of(u: Seq<char>) -> Seq<char>;
pub assume_specification [vx_nfkc_trim] (s: &String) -> (r: String) ensures r@ == nfkc_trim(s@);
pub assume_specification [vx_nfkc] (s: &String) -> (r: String) ensures r@ == nfkc(s@);
pub assume_specification [vx_weak_salt] (u: &String) -> (r: String) ensures r@ == weak_salt_of(u@);
/// scrypt with krill's fixed parameters: a function of password and salt into 32 bytes
pub uninterp spec fn scrypt_of(pw: Seq<u8>, salt: Seq<u8>) -> Seq<u8>;
pub uninterp spec fn hex_decode(s: Seq<char>) -> Seq<u8>;
pub uninterp spec fn hex_encode(b: Seq<u8>) -> Seq<char>;
/// ASSUMED: the salts in the configuration (and the built-in fake salt) are hex strings -- otherwise login panics, which is
/// not what C20 is about
pub assume_specification [hex::decode] (s: &str) -> (o: Result<Vec<u8>, hex::FromHexError>) ensures o is Ok, o->Ok_0@ == hex_decode(s@);
pub assume_specification [hex::encode] (b: [u8; 32]) -> (o: String) ensures o@ == hex_encode(b@), o@.len() == 64;
pub uninterp spec fn str_bytes(s: Seq<char>) -> Seq<u8>;
pub assume_specification [String::as_bytes] (s: &String) -> (b: &[u8]) ensures b@ == str_bytes(s@);
pub assume_specification [vx_str_ne] (a: &String, b: &str) -> (r: bool) ensures r == (a@ != b@);
pub uninterp spec fn token_str(t: Token) -> Seq<char>;
pub assume_specification [<Token as AsRef<str>>::as_ref] (t: &Token) -> (r: &str) ensures r@ == token_str(*t);
pub assume_specification [<String as AsRef<str>>::as_ref] (t: &String) -> (r: &str) ensures r@ == t@;
pub uninterp spec fn role_named(m: RoleMap, n: Seq<char>) -> Option<Arc<Role>>;
pub assume_specification [RoleMap::get] (m: &RoleMap, n: &str) -> (r: Option<Arc<Role>>) ensures r == role_named(*m, n@);
pub open spec fn arc_view(a: Arc<str>) -> Seq<char> { (*a)@ }
pub assume_specification [vx_arc_str] (s: String) -> (a: Arc<str>) ensures arc_view(a) == s@;
/// verified in unit c13_roles (Role::is_allowed)
pub uninterp spec fn may_login(r: Role) -> bool;
pub assume_specification [Role::is_allowed] (r: &Role, p: Permission, res: Option<&MyHandle>) -> (o: bool) ensures p is Login && res is None ==> o == may_login(*r);
pub uninterp spec fn session_for(user: Seq<char>, role: Arc<str>) -> Token;
pub assume_specification [SessionCache::encode] (c: &SessionCache, u: Arc<str>, s: SessionSecret, k: &CryptState, e: Option<Duration>) -> (t: KrillResult<Token>)
    ensures t is Ok ==> t->Ok_0 == session_for(arc_view(u), s.role);
pub uninterp spec fn logged_in(t: Token, id: Arc<str>, role: Arc<str>) -> LoggedInUser;
pub assume_specification [LoggedInUser::new] (t: Token, id: Arc<str>, role: Arc<str>) -> (u: LoggedInUser) ensures u == logged_in(t, id, role);
pub assume_specification [<Error as From<ApiAuthError>>::from] (e: ApiAuthError) -> (o: Error);

/// ASSUMED: a std String is determined by its characters; looking a HashMap<String, _> up by &str is looking it up by the String
/// of the same characters
#[verifier::external_body]
pub broadcast proof fn axiom_string_ext(a: String, b: String) ensures #[trigger] a@ == #[trigger] b@ ==> a == b {}
#[verifier::external_body]
pub broadcast proof fn axiom_str_key<V>(m: Map<String, V>, k: &str, s: String)
    requires s@ == k@
    ensures #[trigger] contains_borrowed_key(m, k) == #[trigger] m.contains_key(s) {}
#[verifier::external_body]
pub broadcast proof fn axiom_str_key_value<V>(m: Map<String, V>, k: &str, s: String, v: V)
    requires s@ == k@
    ensures #[trigger] maps_borrowed_key_to_value(m, k, v) == (#[trigger] m.contains_key(s) && m[s] == v) {}

#[verifier::external_type_specification] pub struct ExSession(Session);
pub uninterp spec fn bearer_of(r: HyperRequest) -> Option<Token>;
pub assume_specification [httpclient::get_bearer_token] (r: &HyperRequest) -> (t: Option<Token>) ensures t == bearer_of(*r);
/// the token is genuine for this session under this key: it base64-decodes, decrypts under the key and deserialises to the session
/// (contract of LoginSessionCache::decode, verified on the real text in unit c20_session, cache hits included)
pub uninterp spec fn genuine_session(t: Token, k: CryptState, s: Session) -> bool;
pub assume_specification [SessionCache::decode] (c: &SessionCache, t: Token, k: &CryptState, add: bool) -> (r: Result<Session, ApiAuthError>)
    ensures r is Ok ==> genuine_session(t, *k, r->Ok_0);
/// ASSUMED (std): an Arc borrowed as a reference is a reference to its value
pub assume_specification<'a, T, A> [<std::sync::Arc<T, A> as std::convert::AsRef<T>>::as_ref] (a: &'a std::sync::Arc<T, A>) -> (r: &'a T)
            where A: std::alloc::Allocator, T: std::marker::MetaSized + ?Sized,
    ensures r == &**a;
pub uninterp spec fn auth_user(id: Arc<str>, role: Arc<Role>) -> AuthInfo;
pub assume_specification [AuthInfo::user] (id: Arc<str>, role: Arc<Role>) -> (a: AuthInfo) ensures a == auth_user(id, role);

// ---- the statement ----
/// the double hash krill stores: scrypt(scrypt(password, weak salt of the user name), the user's salt), hex
pub open spec fn stored_form(user_norm: Seq<char>, password_norm: Seq<char>, salt_hex: Seq<char>) -> Seq<char> {
    hex_encode(scrypt_of(scrypt_of(str_bytes(password_norm), str_bytes(nfkc(weak_salt_of(user_norm)))), hex_decode(salt_hex)))
}
'''


def build():
    U = Unit('c20_login', 'C20', 'login: only a verbatim configured user name with the password matching that user\'s stored hash, whose role exists and permits login; the session is for that user\'s role'.replace("\\'", ''))
    U.feature('allocator_api', 'sized_hierarchy')
    prelude.hashmap(U)
    prelude.strings(U)
    prelude.string_eq(U)
    for t in ['AuthInfo', 'HyperRequest', 'Role', 'RoleMap', 'SessionCache', 'CryptState', 'LoggedInUser', 'MyHandle', 'Duration']:
        U.opaque(t, '')
    U.opaque('Token', 'Clone')
    U.outside(OUTSIDE)
    U.enum(ERR, 'ApiAuthError', keep=['ApiAuthPermanentError'], derive=[])
    U.enum(ERR, 'Error', keep=['ApiInvalidCredentials', 'ApiInsufficientRights'], derive=[])
    U.struct(CF, 'UserDetails', derive=[])
    U.struct(CF, 'AuthProvider', derive=[])
    U.free(U.const(CF, None, 'FAKE_PASSWORD_HASH', ensures='FAKE_PASSWORD_HASH@.len() == 36', proof='proof { reveal_strlit(@INIT@); }'))
    U.free(U.const(CF, None, 'FAKE_SALT'))
    for c in ['PW_HASH_LOG_N', 'PW_HASH_R', 'PW_HASH_P']:
        U.free(U.const('src/constants.rs', None, c))
    U.add(SPEC)
    U.impl('impl AuthProvider', [
        U.fn(CF, 'AuthProvider', 'login', erase_async=True,
             subst=[('auth.username.trim().nfkc().collect::<String>()', 'vx_nfkc_trim(&auth.username)', 'R14'),
                    ('auth.password.trim().nfkc().collect::<String>()', 'vx_nfkc_trim(&auth.password)', 'R14'),
                    ('weak_salt.nfkc().collect::<String>()', 'vx_nfkc(&weak_salt)', 'R14'),
                    ('format!("krill-lagosta-{username}")', 'vx_weak_salt(&username)', 'R2'),
                    ('encoded_hash != user_password_hash', 'vx_str_ne(&encoded_hash, user_password_hash)', 'R14'),
                    ('Arc::<str>::from(username)', 'vx_arc_str(username)', 'R14')],
             requires=[('km', 'obeys_key_model::<String>()')],
             ghost=[(('body_start',), 'broadcast use axiom_string_ext, axiom_str_key, axiom_str_key_value;')],
             ensures=[
                 ('only_with_credentials', 'r is Ok ==> auth_of(*request) is Some'),
                 ('only_a_verbatim_configured_user', 'r is Ok ==> self.users@.contains_key(auth_of(*request)->Some_0.username)'),
                 ('only_with_that_users_password', '''r is Ok ==> stored_form(nfkc_trim(auth_of(*request)->Some_0.username@), nfkc_trim(auth_of(*request)->Some_0.password@),
                        self.users@[auth_of(*request)->Some_0.username].salt@) == token_str(self.users@[auth_of(*request)->Some_0.username].password_hash)'''),
                 ('only_if_the_role_permits_login', '''r is Ok ==> role_named(*self.roles, arc_view(self.users@[auth_of(*request)->Some_0.username].role)) is Some
                        && may_login(*role_named(*self.roles, arc_view(self.users@[auth_of(*request)->Some_0.username].role))->Some_0)'''),
                 ('session_is_for_that_user_and_role', '''r is Ok ==> exists |id: Arc<str>| arc_view(id) == nfkc_trim(auth_of(*request)->Some_0.username@)
                        && r->Ok_0 == logged_in(session_for(arc_view(id), self.users@[auth_of(*request)->Some_0.username].role), id, self.users@[auth_of(*request)->Some_0.username].role)'''),
             ]),
        U.fn(CF, 'AuthProvider', 'auth_from_session',
             closures={0: {'header': '|role: Arc<Role>| -> (o: AuthInfo)', 'ensures': 'o == auth_user(session.user_id, role)'},
                       1: {'header': '|| -> (o: ApiAuthError)', 'ensures': 'true'}},
             ensures=[('identity_and_role_are_those_of_the_session', '''r is Ok ==> role_named(*self.roles, arc_view(session.secrets.role)) is Some
                        && r->Ok_0 == auth_user(session.user_id, role_named(*self.roles, arc_view(session.secrets.role))->Some_0)'''),
                      ('unknown_role_refused', 'role_named(*self.roles, arc_view(session.secrets.role)) is None ==> r is Err')]),
        U.fn(CF, 'AuthProvider', 'authenticate', erase_async=True,
             ensures=[
                 ('identity_only_from_a_genuine_session_token', '''r is Ok && r->Ok_0 is Some ==> bearer_of(*request) is Some
                        && exists |s: Session| genuine_session(bearer_of(*request)->Some_0, self.session_key, s)
                            && role_named(*self.roles, arc_view(s.secrets.role)) is Some
                            && r->Ok_0->Some_0.0 == auth_user(s.user_id, role_named(*self.roles, arc_view(s.secrets.role))->Some_0)'''),
                 ('no_token_is_nobody', 'bearer_of(*request) is None ==> r is Ok && r->Ok_0 is None'),
             ]),
    ])
    return U
