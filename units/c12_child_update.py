"""C12 (identity half): CaManager::ca_child_update -- the administrative update of a child.  Every part the request carries is sent
to the CA as its own command and a refusal of one is the result: in particular a new identity certificate is ALWAYS handed to the
CA when the request has one, whatever else the request changes.  (A dropped identity update leaves the replaced key registered:
requests signed with it keep being accepted and those signed with the new key are refused.)"""
from vxlib import Unit
from units import prelude

MGR = 'src/server/ca/manager.rs'
CMD = 'src/server/ca/commands.rs'
API = 'src/api/admin.rs'

SPEC = r'''
/// obligation predicate: this command was handed to the CA and accepted.  Only ever ESTABLISHED by the assumed contract of
/// process_ca_command, so a function that does not make the call cannot prove it.
pub uninterp spec fn sent(m: CaManager, ca: CaHandle, d: CertAuthCommandDetails) -> bool;
pub uninterp spec fn id_info(c: IdCert) -> IdCertInfo;
impl CaManager {
    #[verifier::external_body]
    pub fn process_ca_command(&self, handle: CaHandle, actor: &Actor, command: CertAuthCommandDetails, krill: &KrillRuntime) -> (r: Result<Arc<CertAuth>, Error>)
        ensures r is Ok ==> sent(*self, handle, command) { unimplemented!() }
}
impl From<IdCert> for IdCertInfo { #[verifier::external_body] fn from(c: IdCert) -> (r: IdCertInfo) ensures r == id_info(c) { unimplemented!() } }
'''


def build():
    U = Unit('c12_child_update', 'C12', 'child update: every part of the request, the identity certificate first of all, reaches the CA as a command; a refusal is the result')
    prelude.strings(U)
    for t in ['CaHandle', 'ChildHandle']:
        U.opaque(t, 'Clone')
    for t in ['Actor', 'KrillRuntime', 'CaManager', 'CertAuth', 'Error', 'IdCert', 'IdCertInfo', 'ResourceSet', 'ResourceClassNameMapping']:
        U.opaque(t, '')
    U.outside('use std::sync::Arc;\npub type KrillResult<T> = Result<T, Error>;\npub type KrillError = Error;')
    U.auto_opaque = True
    U.struct(API, 'UpdateChildRequest', derive=[])
    U.enum(CMD, 'CertAuthCommandDetails', keep=['ChildUpdateId', 'ChildUpdateResources', 'ChildSuspendInactive', 'ChildUnsuspend', 'ChildUpdateResourceClassNameMapping'], derive=[])
    U.add(SPEC)
    U.impl('impl CaManager', [
        U.fn(MGR, 'CaManager', 'ca_child_update', ensures=[
            ('a_new_identity_certificate_always_reaches_the_ca', '''r is Ok && req.id_cert is Some ==>
                    sent(*self, *ca, CertAuthCommandDetails::ChildUpdateId(child, id_info(req.id_cert->Some_0)))'''),
            ('new_resources_always_reach_the_ca', '''r is Ok && req.resources is Some ==>
                    sent(*self, *ca, CertAuthCommandDetails::ChildUpdateResources(child, req.resources->Some_0))'''),
            ('suspension_or_its_end_reaches_the_ca', '''r is Ok && req.suspend is Some ==> (if req.suspend->Some_0 { sent(*self, *ca, CertAuthCommandDetails::ChildSuspendInactive(child)) }
                    else { sent(*self, *ca, CertAuthCommandDetails::ChildUnsuspend(child)) })'''),
            ('class_name_mapping_reaches_the_ca', '''r is Ok && req.resource_class_name_mapping is Some ==>
                    sent(*self, *ca, CertAuthCommandDetails::ChildUpdateResourceClassNameMapping(child, req.resource_class_name_mapping->Some_0))'''),
        ]),
    ])
    return U
