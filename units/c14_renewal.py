"""C14: Roas::create_renewal -- every ROA object (simple and aggregated) that expires before the renewal threshold, or every
object when forced, is re-issued with the same authorisations; no other object is touched and nothing is removed."""
from vxlib import Unit
from units import prelude

ROA = 'src/server/ca/roa.rs'
API = 'src/api/roa.rs'

SPEC = r'''
pub uninterp spec fn time_cmp(a: Time, b: Time) -> Option<std::cmp::Ordering>;
impl vstd::std_specs::cmp::PartialOrdSpecImpl for Time {
    open spec fn obeys_partial_cmp_spec() -> bool { true }
    open spec fn partial_cmp_spec(&self, other: &Time) -> Option<std::cmp::Ordering> { time_cmp(*self, *other) }
}
impl vstd::std_specs::cmp::PartialEqSpecImpl for Time {
    open spec fn obeys_eq_spec() -> bool { false }
    open spec fn eq_spec(&self, other: &Time) -> bool { true }
}
pub assume_specification [<Time as PartialOrd>::partial_cmp] (a: &Time, b: &Time) -> (r: Option<std::cmp::Ordering>) ensures r == time_cmp(*a, *b);
pub assume_specification [<Time as PartialEq>::eq] (a: &Time, b: &Time) -> (r: bool);
pub open spec fn before(a: Time, b: Time) -> bool { time_cmp(a, b) == Some(std::cmp::Ordering::Less) }
pub uninterp spec fn info_expires(i: RoaInfo) -> Time;
pub uninterp spec fn threshold_of(t: IssuanceTimingConfig) -> Time;
pub assume_specification [RoaInfo::expires] (i: &RoaInfo) -> (r: Time) ensures r == info_expires(*i);
pub assume_specification [IssuanceTimingConfig::new_roa_issuance_threshold] (t: &IssuanceTimingConfig) -> (r: Time) ensures r == threshold_of(*t);
pub assume_specification [IssuanceTimingConfig::new_roa_validity] (t: &IssuanceTimingConfig) -> (r: Validity);
pub assume_specification [Roas::make_roa] (a: &[RoaPayloadJsonMapKey], n: &ObjectName, k: &CertifiedKey, v: Validity, s: &KrillSigner) -> (r: KrillResult<Roa>);
pub uninterp spec fn info_new(a: Seq<RoaPayloadJsonMapKey>, r: Roa) -> RoaInfo;
pub assume_specification [RoaInfo::new] (a: Vec<RoaPayloadJsonMapKey>, r: Roa) -> (i: RoaInfo) ensures i.authorizations@ == a@;
pub assume_specification [RoaAggregateKey::object_name] (k: &RoaAggregateKey) -> (r: ObjectName);
pub assume_specification [<ObjectName as From<RoaPayloadJsonMapKey>>::from] (k: RoaPayloadJsonMapKey) -> (r: ObjectName);
pub open spec fn due(force: bool, i: RoaInfo, t: IssuanceTimingConfig) -> bool { force || before(info_expires(i), threshold_of(t)) }
'''


def build():
    U = Unit('c14_renewal', 'C14', 'ROA renewal: every simple and aggregated ROA that is due (or all when forced) is re-issued with the same authorisations; nothing else')
    prelude.hashmap(U)
    prelude.strings(U)
    U.opaque('AsNumber', 'Clone, Copy, PartialEq, Eq, Hash')
    U.opaque('RoaPayloadJsonMapKey', 'Clone, Copy, PartialEq, Eq, Hash', eq=True, clone_spec=True)
    for t in ['Serial', 'Base64', 'Hash']:
        U.opaque(t, 'Clone')
    U.opaque('Validity', 'Clone, Copy')
    U.opaque('Rsync', 'Clone', module='uri')
    for t in ['CertifiedKey', 'IssuanceTimingConfig', 'KrillSigner', 'Error', 'ObjectName', 'Roa']:
        U.opaque(t, '')
    U.outside('''
#[derive(Clone, Copy, PartialEq, PartialOrd)] pub struct Time(pub i64);
pub type KrillResult<T> = Result<T, Error>;
impl IssuanceTimingConfig { pub fn new_roa_issuance_threshold(&self) -> Time { unimplemented!() } pub fn new_roa_validity(&self) -> Validity { unimplemented!() } }
impl Roas { pub fn make_roa(_a: &[RoaPayloadJsonMapKey], _n: &ObjectName, _k: &CertifiedKey, _v: Validity, _s: &KrillSigner) -> KrillResult<Roa> { unimplemented!() } }
impl RoaInfo { pub fn expires(&self) -> Time { unimplemented!() } pub fn new(_a: Vec<RoaPayloadJsonMapKey>, _r: Roa) -> Self { unimplemented!() } }
impl RoaAggregateKey { pub fn object_name(&self) -> ObjectName { unimplemented!() } }
impl From<RoaPayloadJsonMapKey> for ObjectName { fn from(_k: RoaPayloadJsonMapKey) -> Self { unimplemented!() } }
''')
    U.add('#[verifier::external_type_specification] #[verifier::external_body] pub struct ExTime(Time);')
    U.struct(ROA, 'RoaAggregateKey', derive=['Clone', 'Copy', 'PartialEq', 'Eq', 'Hash'], structural=False)
    U.struct(API, 'RoaInfo', derive=['Clone'])
    U.struct(ROA, 'Roas', derive=[])
    U.struct(ROA, 'RoaUpdates', derive=[], default_ensures=[
        ('empty', 'r.updated@.len() == 0 && r.removed@.len() == 0 && r.aggregate_updated@.len() == 0 && r.aggregate_removed@.len() == 0')])
    U.add(SPEC)
    km = 'obeys_key_model::<RoaAggregateKey>() && obeys_key_model::<RoaPayloadJsonMapKey>()'

    def pairs(m):
        return f'''vx_it.seq().len() == self.{m}@.len() && (forall |i: int| 0 <= i < vx_it.seq().len() ==> self.{m}@.contains_key(*(#[trigger] vx_it.seq()[i]).0)
                    && self.{m}@[*vx_it.seq()[i].0] == *vx_it.seq()[i].1) && vx_it.seq().no_duplicates()'''
    U.impl('impl Roas', [
        U.fn(ROA, 'Roas', 'create_renewal', requires=[('km', km)],
             ensures=[
                 ('every_due_simple_roa_renewed', '''r is Ok ==> forall |a: RoaPayloadJsonMapKey| #[trigger] self.simple@.contains_key(a) ==>
                        (due(force, self.simple@[a], *issuance_timing) ==> r->Ok_0.updated@.contains_key(a))'''),
                 ('only_due_simple_roas_renewed', 'r is Ok ==> forall |a: RoaPayloadJsonMapKey| #[trigger] r->Ok_0.updated@.contains_key(a) ==> self.simple@.contains_key(a) && due(force, self.simple@[a], *issuance_timing)'),
                 ('renewed_simple_roa_has_its_authorisation', 'r is Ok ==> forall |a: RoaPayloadJsonMapKey| #[trigger] r->Ok_0.updated@.contains_key(a) ==> self.simple@.contains_key(a) && r->Ok_0.updated@[a].authorizations@ == seq![a]'),
                 ('every_due_aggregate_roa_renewed', '''r is Ok ==> forall |k: RoaAggregateKey| #[trigger] self.aggregate@.contains_key(k) ==>
                        (due(force, self.aggregate@[k], *issuance_timing) ==> r->Ok_0.aggregate_updated@.contains_key(k))'''),
                 ('only_due_aggregate_roas_renewed', 'r is Ok ==> forall |k: RoaAggregateKey| #[trigger] r->Ok_0.aggregate_updated@.contains_key(k) ==> due(force, self.aggregate@[k], *issuance_timing)'),
                 ('renewed_aggregate_keeps_authorisations', '''r is Ok ==> forall |k: RoaAggregateKey| #[trigger] r->Ok_0.aggregate_updated@.contains_key(k) ==> self.aggregate@.contains_key(k)
                        && r->Ok_0.aggregate_updated@[k].authorizations@ == self.aggregate@[k].authorizations@'''),
                 ('nothing_removed', 'r is Ok ==> r->Ok_0.removed@.len() == 0 && r->Ok_0.aggregate_removed@.len() == 0'),
             ],
             loops={
                 0: {'iter': 'vx_it', 'invariant': [
                     ('km', km), ('thr', 'renew_threshold == threshold_of(*issuance_timing)'), ('pairs', pairs('simple')),
                     ('due_renewed_or_to_come', """forall |a: RoaPayloadJsonMapKey| #[trigger] self.simple@.contains_key(a) && due(force, self.simple@[a], *issuance_timing) ==>
                            updates.updated@.contains_key(a) || (exists |j: int| vx_it.index@ <= j < vx_it.seq().len() && *(#[trigger] vx_it.seq()[j]).0 == a)"""),
                     ('only_due', """forall |a: RoaPayloadJsonMapKey| #[trigger] updates.updated@.contains_key(a) ==> self.simple@.contains_key(a) && due(force, self.simple@[a], *issuance_timing)
                            && updates.updated@[a].authorizations@ == seq![a]"""),
                     ('rest', 'updates.removed@.len() == 0 && updates.aggregate_updated@.len() == 0 && updates.aggregate_removed@.len() == 0'),
                 ]},
                 1: {'iter': 'vx_it', 'invariant': [
                     ('km', km), ('thr', 'renew_threshold == threshold_of(*issuance_timing)'), ('pairs', pairs('aggregate')),
                     ('due_renewed_or_to_come', """forall |k: RoaAggregateKey| #[trigger] self.aggregate@.contains_key(k) && due(force, self.aggregate@[k], *issuance_timing) ==>
                            updates.aggregate_updated@.contains_key(k) || (exists |j: int| vx_it.index@ <= j < vx_it.seq().len() && *(#[trigger] vx_it.seq()[j]).0 == k)"""),
                     ('only_due', """forall |k: RoaAggregateKey| #[trigger] updates.aggregate_updated@.contains_key(k) ==> self.aggregate@.contains_key(k) && due(force, self.aggregate@[k], *issuance_timing)
                            && updates.aggregate_updated@[k].authorizations@ == self.aggregate@[k].authorizations@"""),
                     ('simple_done', """(forall |a: RoaPayloadJsonMapKey| #[trigger] self.simple@.contains_key(a) && due(force, self.simple@[a], *issuance_timing) ==> updates.updated@.contains_key(a))
                            && (forall |a: RoaPayloadJsonMapKey| #[trigger] updates.updated@.contains_key(a) ==> self.simple@.contains_key(a) && due(force, self.simple@[a], *issuance_timing)
                                && updates.updated@[a].authorizations@ == seq![a])"""),
                     ('rest', 'updates.removed@.len() == 0 && updates.aggregate_removed@.len() == 0'),
                 ]},
             },
             ghost=[
                 (('loop_start', 0), """let ghost g_u = updates.updated@; let ghost g_i = vx_it.index@ as int;
            proof {
                assert(*auth == *vx_it.seq()[g_i].0 && *roa_info == *vx_it.seq()[g_i].1);
                assert forall |i: int| 0 <= i < vx_it.seq().len() && i != g_i implies *(#[trigger] vx_it.seq()[i]).0 != *auth by {
                    let a = vx_it.seq()[i]; let b = vx_it.seq()[g_i];
                    if *a.0 == *b.0 { assert(*a.1 == self.simple@[*a.0]); assert(*b.1 == self.simple@[*b.0]); assert(a == b); }
                }
            }"""),
                 (('loop_end', 0), """proof {
                assert forall |a: RoaPayloadJsonMapKey| #[trigger] self.simple@.contains_key(a) && due(force, self.simple@[a], *issuance_timing) implies
                        updates.updated@.contains_key(a) || (exists |j: int| g_i + 1 <= j < vx_it.seq().len() && *(#[trigger] vx_it.seq()[j]).0 == a) by {
                    if a == *auth { /*@due_simple_roa_is_renewed*/ assert(updates.updated@.contains_key(a)); }
                    else if !g_u.contains_key(a) { let j = choose |j: int| g_i <= j < vx_it.seq().len() && *(#[trigger] vx_it.seq()[j]).0 == a; assert(j != g_i); }
                }
            }"""),
                 (('loop_start', 1), """let ghost g_u = updates.aggregate_updated@; let ghost g_i = vx_it.index@ as int;
            proof {
                assert(*roa_key == *vx_it.seq()[g_i].0 && *roa_info == *vx_it.seq()[g_i].1);
                assert forall |i: int| 0 <= i < vx_it.seq().len() && i != g_i implies *(#[trigger] vx_it.seq()[i]).0 != *roa_key by {
                    let a = vx_it.seq()[i]; let b = vx_it.seq()[g_i];
                    if *a.0 == *b.0 { assert(*a.1 == self.aggregate@[*a.0]); assert(*b.1 == self.aggregate@[*b.0]); assert(a == b); }
                }
            }"""),
                 (('loop_end', 1), """proof {
                assert forall |k: RoaAggregateKey| #[trigger] self.aggregate@.contains_key(k) && due(force, self.aggregate@[k], *issuance_timing) implies
                        updates.aggregate_updated@.contains_key(k) || (exists |j: int| g_i + 1 <= j < vx_it.seq().len() && *(#[trigger] vx_it.seq()[j]).0 == k) by {
                    if k == *roa_key { /*@due_aggregate_roa_is_renewed*/ assert(updates.aggregate_updated@.contains_key(k)); }
                    else if !g_u.contains_key(k) { let j = choose |j: int| g_i <= j < vx_it.seq().len() && *(#[trigger] vx_it.seq()[j]).0 == k; assert(j != g_i); }
                }
            }"""),
             ]),
    ])
    return U
