"""C04 (who is asked to revoke the old key): CertAuth::revoke_requests(parent) -- the revocation request of a class's old key is
handed out only for the parent that class is held under; every open request of a class under that parent is handed out.  The caller sends whatever this returns to `parent` and finishes the roll on the
answer -- also on a "no such key" answer -- so a request handed out for the wrong parent retires the old key without the real parent
ever revoking it."""
from vxlib import Unit
from units import prelude

CA = 'src/server/ca/certauth.rs'

SPEC = r'''
pub uninterp spec fn rc_revoke_request(rc: ResourceClass) -> Option<RevocationRequest>;
pub uninterp spec fn rc_parent(rc: ResourceClass) -> ParentHandle;
pub assume_specification [ResourceClass::revoke_request] (rc: &ResourceClass) -> (r: Option<&RevocationRequest>)
    ensures match r { Some(x) => rc_revoke_request(*rc) == Some(*x), None => rc_revoke_request(*rc) is None };
pub assume_specification [ResourceClass::parent_handle] (rc: &ResourceClass) -> (r: &ParentHandle) ensures *r == rc_parent(*rc);
pub open spec fn entry_of(m: Map<ResourceClassName, Vec<RevocationRequest>>, n: ResourceClassName) -> Seq<RevocationRequest> { m[n]@ }
/// what is handed out for one class
pub open spec fn entry_for(rc: ResourceClass, parent: ParentHandle) -> Seq<RevocationRequest> {
    if rc_revoke_request(rc) is Some && rc_parent(rc) == parent { seq![rc_revoke_request(rc)->Some_0] } else { Seq::empty() }
}
'''


def build():
    U = Unit('c04_revoke_requests', 'C04', 'revocation requests of old keys are handed out only for the parent the class is held under')
    prelude.hashmap(U)
    prelude.strings(U)
    U.opaque('ResourceClass', '')
    U.opaque('ResourceClassName', 'Clone, PartialEq, Eq, Hash')
    U.opaque('ParentHandle', 'Clone, PartialEq, Eq, Hash', eq=True)
    U.opaque('ParentCaContact', '')
    U.opaque('RevocationRequest', 'Clone')
    U.outside('''
impl ResourceClass {
    pub fn revoke_request(&self) -> Option<&RevocationRequest> { unimplemented!() }
    pub fn parent_handle(&self) -> &ParentHandle { unimplemented!() }
}
/// stand-in for CertAuth: the field revoke_requests reads, and the parents map (so that code consulting it is decided)
pub struct CertAuth { pub resources: HashMap<ResourceClassName, ResourceClass>, pub parents: HashMap<ParentHandle, ParentCaContact> }
''')
    U.add('#[verifier::external_type_specification] pub struct ExCertAuth(CertAuth);')
    U.add(SPEC)
    km = 'obeys_key_model::<ResourceClassName>()'
    U.impl('impl CertAuth', [
        U.fn(CA, 'CertAuth', 'revoke_requests', hash_loops=(0,), attrs=['#[verifier::loop_isolation(false)]'], requires=[('km', km)],
             ensures=[
                 # (whether classes with nothing to revoke get an empty entry is not part of the statement: the caller sends nothing for them)
                 ('only_for_the_parent_the_class_is_held_under', 'forall |n: ResourceClassName| #[trigger] r@.contains_key(n) ==> self.resources@.contains_key(n) && r@[n]@ == entry_for(self.resources@[n], *parent)'),
                 ('no_open_request_left_out', 'forall |n: ResourceClassName| #[trigger] self.resources@.contains_key(n) && entry_for(self.resources@[n], *parent).len() > 0 ==> r@.contains_key(n)'),
             ],
             loops={0: {'iter': 'vx_it', 'invariant': [
                 ('pairs', '''vx_it.seq().len() == self.resources@.len() && (forall |i: int| 0 <= i < vx_it.seq().len() ==> self.resources@.contains_key(*(#[trigger] vx_it.seq()[i]).0)
                        && self.resources@[*vx_it.seq()[i].0] == *vx_it.seq()[i].1) && vx_it.seq().no_duplicates()'''),
                 ('all_listed', 'forall |n: ResourceClassName| #[trigger] self.resources@.contains_key(n) ==> exists |j: int| 0 <= j < vx_it.seq().len() && *(#[trigger] vx_it.seq()[j]).0 == n'),
                 ('only_classes', 'forall |n: ResourceClassName| #[trigger] res@.contains_key(n) ==> self.resources@.contains_key(n) && entry_of(res@, n) == entry_for(self.resources@[n], *parent)'),
                 ('done_or_to_come', '''forall |n: ResourceClassName| #[trigger] self.resources@.contains_key(n) && entry_for(self.resources@[n], *parent).len() > 0 ==> res@.contains_key(n)
                        || exists |j: int| vx_it.index@ <= j < vx_it.seq().len() && *(#[trigger] vx_it.seq()[j]).0 == n'''),
             ]}},
             ghost=[
                 (('loop_start', 0), 'let ghost g_res = res@; let ghost g_i = vx_it.index@ as int; proof { assert((name, rc) == vx_it.seq()[g_i]); }'),
                 (('loop_end', 0), '''proof {
                    /*@entry_of_this_class_is_for_its_own_parent*/ assert((entry_for(*rc, *parent).len() > 0 ==> res@.contains_key(*name))
                        && (res@.contains_key(*name) ==> entry_of(res@, *name) =~= entry_for(*rc, *parent)));
                    assert(forall |n: ResourceClassName| n != *name ==> (#[trigger] res@.contains_key(n) <==> g_res.contains_key(n)) && (g_res.contains_key(n) ==> res@[n] == g_res[n]));
                    assert forall |n: ResourceClassName| #[trigger] self.resources@.contains_key(n) && entry_for(self.resources@[n], *parent).len() > 0 implies res@.contains_key(n)
                        || exists |j: int| g_i + 1 <= j < vx_it.seq().len() && *(#[trigger] vx_it.seq()[j]).0 == n by {
                        if n != *name && !g_res.contains_key(n) { let j = choose |j: int| g_i <= j < vx_it.seq().len() && *(#[trigger] vx_it.seq()[j]).0 == n; assert(j != g_i); }
                    }
                 }'''),
             ]),
    ])
    return U
