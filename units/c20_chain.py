"""C20: Authorizer::authenticate_request -- the provider chain (legacy admin token, primary provider, Unix-socket peer): a
request acts as an authenticated identity only if one of the providers accepted it (Ok(Some)), in that order; if all of them
reject or fail, the result is the anonymous actor or an authentication error -- never a role."""
from vxlib import Unit
from units import prelude

AUTH = 'src/daemon/http/auth/authorizer.rs'

SPEC = r'''
pub type ProviderAnswer = Result<Option<(AuthInfo, Option<Token>)>, ApiAuthError>;
/// what each provider answers for a request (their own contracts: unit c20_auth for the admin token)
pub uninterp spec fn legacy_says(p: admin_token::AuthProvider, r: HyperRequest) -> ProviderAnswer;
pub uninterp spec fn primary_says(p: AuthProvider, r: HyperRequest) -> ProviderAnswer;
pub uninterp spec fn unix_says(p: unix_user::AuthProvider, r: HyperRequest) -> ProviderAnswer;
pub assume_specification [admin_token::AuthProvider::authenticate] (p: &admin_token::AuthProvider, r: &HyperRequest) -> (a: ProviderAnswer) ensures a == legacy_says(*p, *r);
pub assume_specification [AuthProvider::authenticate] (p: &AuthProvider, r: &HyperRequest) -> (a: ProviderAnswer) ensures a == primary_says(*p, *r);
pub assume_specification [unix_user::AuthProvider::authenticate] (p: &unix_user::AuthProvider, r: &HyperRequest) -> (a: ProviderAnswer) ensures a == unix_says(*p, *r);
pub uninterp spec fn is_anonymous(a: AuthInfo) -> bool;
pub uninterp spec fn is_auth_error(a: AuthInfo, e: ApiAuthError) -> bool;
pub open spec fn accepted(a: ProviderAnswer) -> bool { a is Ok && a->Ok_0 is Some }
/// the answer of the chain before it is turned into an actor: first provider that accepts, else what the last one consulted said
pub open spec fn chain(z: Authorizer, r: HyperRequest) -> ProviderAnswer {
    let l = match z.legacy_provider { Some(p) => legacy_says(p, r), None => Ok(None) };
    if accepted(l) { l } else {
        let p = primary_says(z.primary_provider, r);
        if accepted(p) { p } else { unix_says(z.unix_socket_provider, r) }
    }
}
'''


def build():
    U = Unit('c20_chain', 'C20', 'provider chain: authenticated only if a provider accepted (legacy token, then primary, then Unix peer); all rejected => anonymous or error, never a role')
    prelude.strings(U)
    for t in ['HyperRequest', 'AuthInfo', 'Token', 'ApiAuthError', 'AuthProvider']:
        U.opaque(t, '')
    U.outside('''
pub mod admin_token { pub struct AuthProvider(pub u8); impl AuthProvider { pub fn authenticate(&self, _r: &super::HyperRequest) -> Result<Option<(super::AuthInfo, Option<super::Token>)>, super::ApiAuthError> { unimplemented!() } } }
pub mod unix_user { pub struct AuthProvider(pub u8); impl AuthProvider { pub fn authenticate(&self, _r: &super::HyperRequest) -> Result<Option<(super::AuthInfo, Option<super::Token>)>, super::ApiAuthError> { unimplemented!() } } }
impl AuthProvider { pub fn authenticate(&self, _r: &HyperRequest) -> Result<Option<(AuthInfo, Option<Token>)>, ApiAuthError> { unimplemented!() } }
''')
    U.add('''#[verifier::external_type_specification] #[verifier::external_body] pub struct ExAdm(admin_token::AuthProvider);
#[verifier::external_type_specification] #[verifier::external_body] pub struct ExUnix(unix_user::AuthProvider);''')
    U.struct(AUTH, 'Authorizer', derive=[])
    U.add(SPEC)
    U.impl('impl AuthInfo', [
        U.fn(AUTH, 'AuthInfo', 'anonymous', external_body=True, ensures=[('assumed', 'is_anonymous(r)')]),
        U.fn(AUTH, 'AuthInfo', 'error', external_body=True, ensures=[('assumed', 'is_auth_error(r, err)')]),
    ])
    U.impl('impl Authorizer', [
        U.fn(AUTH, 'Authorizer', 'authenticate_request', erase_async=True,
             ensures=[
                 ('identity_only_from_an_accepting_provider', 'accepted(chain(*self, *request)) ==> r == chain(*self, *request)->Ok_0->Some_0'),
                 ('all_rejected_is_nobody', 'chain(*self, *request) == Ok::<Option<(AuthInfo, Option<Token>)>, ApiAuthError>(None) ==> is_anonymous(r.0) && r.1 is None'),
                 ('failure_is_an_error_not_a_role', 'chain(*self, *request) is Err ==> is_auth_error(r.0, chain(*self, *request)->Err_0) && r.1 is None'),
             ]),
    ])
    return U
