"""C11 (the rsync tree equals the snapshot after every successful write): RepositoryContent::write_repository -- a successful write of
the repository has written the RRDP files AND the rsync tree, for the current serial and the current snapshot, every time.  The rsync
write is not conditional on the RRDP files having been out of date: after a write that got as far as the notification switch but
failed in the rsync part, the next write finds the RRDP files up to date and must still bring the rsync tree in line.  The two
writers touch the file system and are ASSUMED externals; their being called is stated as capabilities."""
from vxlib import Unit
from units import prelude

CT = 'src/server/pubd/content.rs'

SPEC = r'''
pub uninterp spec fn serial_of(r: RrdpServer) -> u64;
pub uninterp spec fn snapshot_of(r: RrdpServer) -> SnapshotData;
/// established only by the assumed contracts of the two writers
pub uninterp spec fn rrdp_files_current(r: RrdpServer) -> bool;
pub uninterp spec fn rsync_tree_is(s: RsyncdStore, serial: u64, snapshot: SnapshotData) -> bool;
impl RrdpServer {
    #[verifier::external_body] pub fn update_rrdp_files(&self, config: RrdpUpdatesConfig) -> (r: Result<(), Error>) ensures r is Ok ==> rrdp_files_current(*self) { unimplemented!() }
    #[verifier::external_body] pub fn serial(&self) -> (r: u64) ensures r == serial_of(*self) { unimplemented!() }
    #[verifier::external_body] pub fn snapshot(&self) -> (r: &SnapshotData) ensures *r == snapshot_of(*self) { unimplemented!() }
}
impl RsyncdStore {
    #[verifier::external_body] pub fn write(&self, serial: u64, snapshot: &SnapshotData) -> (r: KrillResult<()>) ensures r is Ok ==> rsync_tree_is(*self, serial, *snapshot) { unimplemented!() }
}
'''


def build():
    U = Unit('c11_write_repo', 'C11', 'a successful write of the repository wrote the RRDP files and the rsync tree for the current serial and snapshot, unconditionally')
    prelude.strings(U)
    for t in ['RrdpServer', 'RsyncdStore', 'SnapshotData', 'RrdpUpdatesConfig', 'Error']:
        U.opaque(t, '')
    U.outside('pub type KrillResult<T> = Result<T, Error>;')
    U.struct(CT, 'RepositoryContent', derive=[])
    U.add(SPEC)
    U.impl('impl RepositoryContent', [
        U.fn(CT, 'RepositoryContent', 'write_repository', ensures=[
            ('rrdp_files_and_rsync_tree_both_written_for_the_current_state', '''r is Ok ==> rrdp_files_current(self.rrdp)
                    && rsync_tree_is(self.rsync, serial_of(self.rrdp), snapshot_of(self.rrdp))''')]),
    ])
    return U
