"""C15 (signer side): TrustAnchorSigner::process_signer_request -- the whole function, verbatim.  Every child request in a
validated proxy request is answered under that child's handle, with exactly one response per requested key, of the kind that was
asked for (issuance for issuance, the revocation response of that very revocation request), and nothing else is filed for the child;
the response carries the nonce of the request and the exchange records the request it answers."""
from vxlib import Unit
from units import prelude

SG = 'src/tasigner/signer.rs'
TA = 'src/api/ta.rs'

OUTSIDE = r'''
pub type KrillResult<T> = Result<T, Error>;
pub enum Error { Custom(String), VxOther }
pub struct ProvError(pub u8);
impl From<ProvError> for Error { fn from(_e: ProvError) -> Self { unimplemented!() } }
#[derive(Debug)] pub struct CertDecodeError(pub u8);
pub mod provisioning {
    use super::*;
    #[derive(Clone)] pub struct IssuanceRequest(pub u8);
    #[derive(Clone)] pub struct RevocationRequest(pub u8);
    #[derive(Clone)] pub struct IssuanceResponse(pub u8);
    #[derive(Clone)] pub struct RevocationResponse(pub u8);
    pub struct IssuedCert(pub u8);
    pub struct SigningCert(pub u8);
    impl IssuanceRequest { pub fn unpack(self) -> (ResourceClassName, RequestResourceLimit, RpkiCaCsr) { unimplemented!() } }
    impl RevocationRequest { pub fn unpack(self) -> (ResourceClassName, KeyIdentifier) { unimplemented!() } }
    impl IssuanceResponse { pub fn new(_rcn: ResourceClassName, _r: ResourceSet, _na: Time, _i: IssuedCert, _s: SigningCert) -> Self { unimplemented!() } }
    impl IssuedCert { pub fn new(_u: Rsync, _l: RequestResourceLimit, _c: Cert) -> Self { unimplemented!() } }
    impl SigningCert { pub fn new(_u: Rsync, _c: Cert) -> Self { unimplemented!() } }
}
use provisioning::{IssuanceResponse, RevocationResponse};
impl RequestResourceLimit { pub fn apply_to(&self, _s: &ResourceSet) -> Result<ResourceSet, ProvError> { unimplemented!() } }
pub struct SignSupport;
impl SignSupport {
    pub fn sign_validity_weeks(_w: i64) -> Validity { unimplemented!() }
    pub fn make_issued_cert(_c: CsrInfo, _r: &ResourceSet, _l: RequestResourceLimit, _s: &ReceivedCert, _v: Validity, _k: &KrillSigner) -> KrillResult<IssuedCertificate> { unimplemented!() }
}
impl Validity { pub fn not_after(&self) -> Time { unimplemented!() } }
impl Time { pub fn now() -> Time { unimplemented!() } }
pub fn ta_resource_class_name() -> ResourceClassName { unimplemented!() }
impl PublicKey { pub fn key_identifier(&self) -> KeyIdentifier { unimplemented!() } }
'''

SPEC = r'''
// ---- declared stand-ins (only the fields this function reads) ----
pub struct ReceivedCert { pub uri: Rsync, pub vx_rest: u8 }
pub struct IssuedCertificate { pub uri: Rsync, pub vx_rest: u8 }
impl ReceivedCert { #[verifier::external_body] pub fn to_cert(&self) -> (r: Result<Cert, CertDecodeError>) ensures r is Ok { unimplemented!() } }
impl IssuedCertificate { #[verifier::external_body] pub fn to_cert(&self) -> (r: Result<Cert, CertDecodeError>) ensures r is Ok { unimplemented!() } }
pub struct TaCertDetails { pub cert: ReceivedCert, pub vx_rest: u8 }
pub struct IdCertInfo { pub public_key: PublicKey, pub vx_rest: u8 }
pub struct TaTimingConfig { pub issued_certificate_validity_weeks: i64, pub mft_next_update_weeks: i64, pub signed_message_validity_days: i64 }
pub struct TrustAnchorSignedResponse { pub response: TrustAnchorSignerResponse, pub signed: TrustAnchorSignedMessage }
pub struct TrustAnchorSignedRequest { pub signed: TrustAnchorSignedMessage, pub request: TrustAnchorSignerRequest }

// ---- assumed externals ----
/// validity of a signed proxy request (verified in c15_taproxy: signature under the proxy key AND clear text == signed content)
pub uninterp spec fn request_genuine(r: TrustAnchorSignedRequest, id: IdCertInfo) -> bool;
impl TrustAnchorSignedRequest {
    #[verifier::external_body] pub fn validate(&self, issuer: &IdCertInfo) -> (r: Result<(), Error>) ensures r is Ok <==> request_genuine(*self, *issuer) { unimplemented!() }
    #[verifier::external_body] pub fn content(&self) -> (r: &TrustAnchorSignerRequest) ensures *r == self.request { unimplemented!() }
}
impl TrustAnchorObjects {
    #[verifier::external_body] pub fn add_issued(&mut self, issued: IssuedCertificate) { unimplemented!() }
    #[verifier::external_body] pub fn revoke_issued(&mut self, key: &KeyIdentifier) -> (r: bool) { unimplemented!() }
    #[verifier::external_body] pub fn republish(&mut self, signing_cert: &ReceivedCert, next_update_weeks: i64, mft_number_override: Option<u64>, signer: &KrillSigner) -> (r: KrillResult<()>) { unimplemented!() }
}
impl TrustAnchorSignerResponse {
    /// ASSUMED (body in api/ta.rs): the signed response wraps a clone of this very response
    #[verifier::external_body] pub fn sign(&self, validity_days: i64, signing_key: KeyIdentifier, signer: &KrillSigner) -> (r: Result<TrustAnchorSignedResponse, Error>)
        ensures r is Ok ==> r->Ok_0.response == *self { unimplemented!() }
}
pub uninterp spec fn rev_response_of(r: provisioning::RevocationRequest) -> RevocationResponse;
impl From<&provisioning::RevocationRequest> for RevocationResponse { #[verifier::external_body] fn from(r: &provisioning::RevocationRequest) -> (o: Self) ensures o == rev_response_of(*r) { unimplemented!() } }
pub assume_specification [provisioning::IssuanceRequest::unpack] (r: provisioning::IssuanceRequest) -> (o: (ResourceClassName, RequestResourceLimit, RpkiCaCsr));
pub assume_specification [provisioning::RevocationRequest::unpack] (r: provisioning::RevocationRequest) -> (o: (ResourceClassName, KeyIdentifier));
pub assume_specification [IssuanceResponse::new] (rcn: ResourceClassName, r: ResourceSet, na: Time, i: provisioning::IssuedCert, s: provisioning::SigningCert) -> (o: IssuanceResponse);
pub assume_specification [provisioning::IssuedCert::new] (u: Rsync, l: RequestResourceLimit, c: Cert) -> (o: provisioning::IssuedCert);
pub assume_specification [provisioning::SigningCert::new] (u: Rsync, c: Cert) -> (o: provisioning::SigningCert);
pub assume_specification [RequestResourceLimit::apply_to] (l: &RequestResourceLimit, s: &ResourceSet) -> (o: Result<ResourceSet, ProvError>);
impl TryFrom<&RpkiCaCsr> for CsrInfo { type Error = Error; #[verifier::external_body] fn try_from(c: &RpkiCaCsr) -> (o: KrillResult<CsrInfo>) { unimplemented!() } }
pub assume_specification [SignSupport::sign_validity_weeks] (w: i64) -> (o: Validity);
pub assume_specification [SignSupport::make_issued_cert] (c: CsrInfo, r: &ResourceSet, l: RequestResourceLimit, s: &ReceivedCert, v: Validity, k: &KrillSigner) -> (o: KrillResult<IssuedCertificate>);
pub assume_specification [Validity::not_after] (v: &Validity) -> (o: Time);
pub assume_specification [Time::now] () -> (o: Time);
pub assume_specification [ta_resource_class_name] () -> (o: ResourceClassName);
pub assume_specification [PublicKey::key_identifier] (k: &PublicKey) -> (o: KeyIdentifier);
pub assume_specification [<Error as From<ProvError>>::from] (e: ProvError) -> (o: Error);

// ---- the statement ----
pub open spec fn resp_ok(rq: ProvisioningRequest, rs: ProvisioningResponse) -> bool {
    match rq {
        ProvisioningRequest::Issuance(_) => rs is Issuance,
        ProvisioningRequest::Revocation(q) => rs == ProvisioningResponse::Revocation(rev_response_of(q)),
    }
}
/// one child: exactly the requested keys are answered, each with the kind that was asked for
pub open spec fn answers_child(reqs: Map<KeyIdentifier, ProvisioningRequest>, resps: Map<KeyIdentifier, ProvisioningResponse>) -> bool {
    &&& resps.dom() =~= reqs.dom()
    &&& forall |k: KeyIdentifier| #[trigger] reqs.contains_key(k) ==> resp_ok(reqs[k], resps[k])
}
/// the first n child requests are answered in `out` (a later request of the same child replaces an earlier one)
pub open spec fn answered(reqs: Seq<TrustAnchorChildRequests>, n: int, out: Map<ChildHandle, HashMap<KeyIdentifier, ProvisioningResponse>>) -> bool {
    &&& forall |c: ChildHandle| #[trigger] out.contains_key(c) <==> exists |i: int| 0 <= i < n && (#[trigger] reqs[i]).child == c
    &&& forall |i: int| 0 <= i < n && (forall |j: int| i < j < n ==> (#[trigger] reqs[j]).child != reqs[i].child)
            ==> answers_child((#[trigger] reqs[i]).requests@, out[reqs[i].child]@)
}
'''


def build():
    U = Unit('c15_signer', 'C15', 'signer: every child request of a validated proxy request is answered under that child, one response per requested key, of the requested kind; nonce and request carried over')
    prelude.hashmap(U)
    prelude.strings(U)
    for t in ['CaHandle', 'TrustAnchorObjects', 'TrustAnchorSignedMessage', 'ResourceSet', 'Nonce', 'Rsync', 'RequestResourceLimit']:
        U.opaque(t, 'Clone')
    U.opaque('ChildHandle', 'Clone, PartialEq, Eq, Hash')
    U.opaque('KeyIdentifier', 'Clone, Copy, PartialEq, Eq, Hash', clone_spec=True)
    U.opaque('ResourceClassName', 'Clone, PartialEq, Eq', eq=True)
    for t in ['KrillSigner', 'TrustAnchorProxySignerExchanges', 'PublicKey', 'Time', 'Cert', 'CsrInfo', 'RpkiCaCsr']:
        U.opaque(t, '')
    U.opaque('Validity', 'Clone, Copy')
    U.outside(OUTSIDE)
    U.add('''#[verifier::external_type_specification] pub struct ExError(Error);
#[verifier::external_type_specification] #[verifier::external_body] pub struct ExProvError(ProvError);
#[verifier::external_type_specification] #[verifier::external_body] pub struct ExCertDecodeError(CertDecodeError);
#[verifier::external_type_specification] #[verifier::external_body] pub struct ExSignSupport(SignSupport);
#[verifier::external_type_specification] #[verifier::external_body] pub struct ExIssReq(provisioning::IssuanceRequest);
#[verifier::external_type_specification] #[verifier::external_body] pub struct ExRevReq(provisioning::RevocationRequest);
#[verifier::external_type_specification] #[verifier::external_body] pub struct ExIssResp(provisioning::IssuanceResponse);
#[verifier::external_type_specification] #[verifier::external_body] pub struct ExRevResp(provisioning::RevocationResponse);
#[verifier::external_type_specification] #[verifier::external_body] pub struct ExIssuedCert(provisioning::IssuedCert);
#[verifier::external_type_specification] #[verifier::external_body] pub struct ExSigningCert(provisioning::SigningCert);
pub assume_specification [<provisioning::IssuanceRequest as Clone>::clone] (n: &provisioning::IssuanceRequest) -> (r: provisioning::IssuanceRequest) ensures r == *n;
pub assume_specification [<provisioning::IssuanceResponse as Clone>::clone] (n: &provisioning::IssuanceResponse) -> (r: provisioning::IssuanceResponse) ensures r == *n;
pub assume_specification [<provisioning::RevocationResponse as Clone>::clone] (n: &provisioning::RevocationResponse) -> (r: provisioning::RevocationResponse) ensures r == *n;
pub assume_specification [<provisioning::RevocationRequest as Clone>::clone] (n: &provisioning::RevocationRequest) -> (r: provisioning::RevocationRequest) ensures r == *n;
''')
    U.enum(TA, 'ProvisioningRequest', derive=['Clone'])
    U.enum(TA, 'ProvisioningResponse', derive=['Clone'])
    U.struct(TA, 'TrustAnchorChildRequests', derive=[])
    U.struct(TA, 'TrustAnchorSignerRequest', derive=[])
    U.struct(TA, 'TrustAnchorSignerResponse', derive=[])
    U.struct(TA, 'TrustAnchorProxySignerExchange', derive=[])
    U.enum(SG, 'TrustAnchorSignerEvent', derive=[])
    U.struct(SG, 'TrustAnchorSigner', derive=[])
    U.add(SPEC)
    km = 'obeys_key_model::<ChildHandle>() && obeys_key_model::<KeyIdentifier>()'
    U.impl('impl TrustAnchorSigner', [
        # lookups in the recorded exchanges (iterator find; results unconstrained): declared so that code consulting them is decided
        U.fn(SG, 'TrustAnchorSigner', 'get_exchange', external_body=True),
        U.fn(SG, 'TrustAnchorSigner', 'process_signer_request', clone_loops=(1,), attrs=['#[verifier::loop_isolation(false)]'],
             requires=[('km', km)],
             ensures=[
                 ('only_validated_requests', 'r is Ok ==> request_genuine(signed_request, self.proxy_id)'),
                 ('one_exchange_for_this_request', '''r is Ok ==> r->Ok_0@.len() == 1 && r->Ok_0@[0] is ProxySignerExchangeDone
                        && r->Ok_0@[0]->ProxySignerExchangeDone_0.request == signed_request
                        && r->Ok_0@[0]->ProxySignerExchangeDone_0.response.response.nonce == signed_request.request.nonce'''),
                 ('every_child_answered_with_its_own_responses', '''r is Ok ==> answered(signed_request.request.child_requests@, signed_request.request.child_requests@.len() as int,
                        r->Ok_0@[0]->ProxySignerExchangeDone_0.response.response.child_responses@)'''),
             ],
             loops={
                 0: {'iter': 'vx_it', 'invariant': [
                     ('km', km),
                     ('list', 'vx_it.seq().unref() == signed_request.request.child_requests@'),
                     ('answered_so_far', 'answered(signed_request.request.child_requests@, vx_it.index@ as int, child_responses@)'),
                 ]},
                 1: {'iter': 'vx_it1', 'invariant': [
                     ('km', km),
                     ('pairs', '''vx_it1.seq().len() == child_request.requests@.len() && (forall |i: int| 0 <= i < vx_it1.seq().len() ==> child_request.requests@.contains_key(*(#[trigger] vx_it1.seq()[i]).0)
                            && child_request.requests@[*vx_it1.seq()[i].0] == *vx_it1.seq()[i].1) && vx_it1.seq().no_duplicates()'''),
                     ('all_keys_listed', 'forall |k: KeyIdentifier| #[trigger] child_request.requests@.contains_key(k) ==> exists |j: int| 0 <= j < vx_it1.seq().len() && *(#[trigger] vx_it1.seq()[j]).0 == k'),
                     ('answered_keys_are_the_visited_ones', 'forall |k: KeyIdentifier| #[trigger] responses@.contains_key(k) <==> exists |j: int| 0 <= j < vx_it1.index@ && *(#[trigger] vx_it1.seq()[j]).0 == k'),
                     ('answered_with_the_requested_kind', 'forall |j: int| 0 <= j < vx_it1.index@ ==> resp_ok(*(#[trigger] vx_it1.seq()[j]).1, responses@[*vx_it1.seq()[j].0])'),
                 ]},
             },
             ghost=[
                 (('loop_start', 0), 'let ghost g_out = child_responses@; let ghost g_n = vx_it.index@ as int; proof { assert(*child_request == signed_request.request.child_requests@[g_n]); }'),
                 (('loop_start', 1), '''let ghost g_resp = responses@; let ghost g_i = vx_it1.index@ as int;
                    proof {
                        assert((vx_k1, vx_v1) == vx_it1.seq()[g_i]); assert(key_id == *vx_k1); assert(provisioning_request == *vx_v1);
                        assert forall |i: int| 0 <= i < vx_it1.seq().len() && i != g_i implies *(#[trigger] vx_it1.seq()[i]).0 != key_id by {
                            let a = vx_it1.seq()[i]; let b = vx_it1.seq()[g_i];
                            if *a.0 == *b.0 { assert(*a.1 == child_request.requests@[*a.0]); assert(*b.1 == child_request.requests@[*b.0]); assert(a == b); }
                        }
                    }'''),
                 (('loop_end', 1), '''proof {
                        /*@this_key_answered_with_the_requested_kind*/ assert(responses@.contains_key(key_id) && resp_ok(provisioning_request, responses@[key_id]));
                        assert(responses@.dom() =~= g_resp.dom().insert(key_id));
                        assert forall |j: int| 0 <= j < g_i + 1 implies resp_ok(*(#[trigger] vx_it1.seq()[j]).1, responses@[*vx_it1.seq()[j].0]) by {
                            if j < g_i { assert(*vx_it1.seq()[j].0 != key_id); assert(responses@[*vx_it1.seq()[j].0] == g_resp[*vx_it1.seq()[j].0]); }
                        }
                    }'''),
                 (('loop_end', 0), '''proof {
                        let reqs = signed_request.request.child_requests@;
                        /*@responses_of_this_child_are_its_own*/ assert(answers_child(child_request.requests@, responses@));
                        assert(child_responses@ == g_out.insert(child_request.child, responses));
                        assert forall |i: int| 0 <= i < g_n + 1 && (forall |j: int| i < j < g_n + 1 ==> (#[trigger] reqs[j]).child != reqs[i].child)
                                implies answers_child((#[trigger] reqs[i]).requests@, child_responses@[reqs[i].child]@) by {
                            if i < g_n { assert(reqs[g_n].child != reqs[i].child); assert forall |j: int| i < j < g_n implies (#[trigger] reqs[j]).child != reqs[i].child by {} }
                        }
                        assert forall |c: ChildHandle| #[trigger] child_responses@.contains_key(c) <==> exists |i: int| 0 <= i < g_n + 1 && (#[trigger] reqs[i]).child == c by {
                            if c == child_request.child { assert(reqs[g_n].child == c); }
                            else if g_out.contains_key(c) { let i = choose |i: int| 0 <= i < g_n && (#[trigger] reqs[i]).child == c; assert(reqs[i].child == c); }
                        }
                    }'''),
             ]),
    ])
    return U
