"""C01/C14: BgpSecCertificates -- the selection predicates of create_updates and create_renewal (closure bodies lifted
verbatim, R15): a router certificate is issued exactly for a definition that has none yet and whose AS is held; one is
withdrawn exactly when its definition is gone or its AS is no longer held; one is renewed exactly when it is due."""
from vxlib import Unit
from units import prelude

BG = 'src/server/ca/bgpsec.rs'
API = 'src/api/bgpsec.rs'

SPEC = r'''
pub uninterp spec fn holds_asn(r: ResourceSet, a: Asn) -> bool;
pub assume_specification [ResourceSet::contains_asn] (r: &ResourceSet, a: Asn) -> (b: bool) ensures b == holds_asn(*r, a);
pub uninterp spec fn time_cmp(a: Time, b: Time) -> Option<std::cmp::Ordering>;
impl vstd::std_specs::cmp::PartialOrdSpecImpl for Time {
    open spec fn obeys_partial_cmp_spec() -> bool { true }
    open spec fn partial_cmp_spec(&self, other: &Time) -> Option<std::cmp::Ordering> { time_cmp(*self, *other) }
}
impl vstd::std_specs::cmp::PartialEqSpecImpl for Time {
    open spec fn obeys_eq_spec() -> bool { false }
    open spec fn eq_spec(&self, other: &Time) -> bool { true }
}
pub assume_specification [<Time as PartialOrd>::partial_cmp] (a: &Time, b: &Time) -> (r: Option<std::cmp::Ordering>) ensures r == time_cmp(*a, *b);
pub assume_specification [<Time as PartialEq>::eq] (a: &Time, b: &Time) -> (r: bool);
pub open spec fn before(a: Time, b: Time) -> bool { time_cmp(a, b) == Some(std::cmp::Ordering::Less) }
'''


def build():
    U = Unit('c01_bgpsec', 'C01', 'BGPsec router certificates: issued iff defined, not yet certified and AS held; withdrawn iff definition gone or AS lost; renewed iff due')
    prelude.hashmap(U)
    prelude.strings(U)
    U.opaque('Asn', 'Clone, Copy, PartialEq, Eq, Hash')
    U.opaque('KeyIdentifier', 'Clone, Copy, PartialEq, Eq, Hash')
    for t in ['PublicKey', 'Base64', 'StoredBgpSecCsr']:
        U.opaque(t, 'Clone')
    U.opaque('Serial', 'Clone, Copy')
    U.opaque('ResourceSet', '')
    U.outside('''
#[derive(Clone, Copy, PartialEq, PartialOrd)] pub struct Time(pub i64);
impl ResourceSet { pub fn contains_asn(&self, _a: Asn) -> bool { unimplemented!() } }
''')
    U.add('#[verifier::external_type_specification] #[verifier::external_body] pub struct ExTime(Time);')
    U.struct(API, 'BgpSecAsnKey', derive=['Clone', 'Copy', 'PartialEq', 'Eq', 'Hash'], structural=False)
    U.struct(BG, 'BgpSecCertInfo', derive=[])
    U.struct(BG, 'BgpSecDefinitions', derive=[])
    U.struct(BG, 'BgpSecCertificates', derive=[])
    U.add(SPEC)
    km = 'obeys_key_model::<BgpSecAsnKey>()'
    U.impl('impl BgpSecDefinitions', [
        U.fn(BG, 'BgpSecDefinitions', 'has', requires=[('km', km)], ensures=[('lookup', 'r == self.0@.contains_key(*key)')]),
    ])
    U.impl('impl BgpSecCertificates', [
        U.closure_fn(BG, 'BgpSecCertificates', 'create_updates', 0, 'vx_issue_filter',
                     '(&self, k: &BgpSecAsnKey, resources: &ResourceSet) -> (r: bool)', requires=[('km', km)],
                     ensures=[('issued_iff_not_yet_certified_and_as_held', 'r == (!self.0@.contains_key(*k) && holds_asn(*resources, k.asn))')]),
        U.closure_fn(BG, 'BgpSecCertificates', 'create_updates', 1, 'vx_remove_filter',
                     '(k: &BgpSecAsnKey, definitions: &BgpSecDefinitions, resources: &ResourceSet) -> (r: bool)', requires=[('km', km)],
                     ensures=[('withdrawn_iff_definition_gone_or_as_lost', 'r == (!definitions.0@.contains_key(*k) || !holds_asn(*resources, k.asn))')]),
        U.closure_fn(BG, 'BgpSecCertificates', 'create_renewal', 0, 'vx_renew_filter',
                     '(cert: &&BgpSecCertInfo, renew_threshold: Option<Time>) -> (r: bool)',
                     inner_closures={0: {'header': '|threshold: Time| -> (o: bool)', 'ensures': 'o == before(cert.expires, threshold)'}},
                     ensures=[('renewed_iff_due', 'r == (match renew_threshold { Some(t) => before(cert.expires, t), None => true })')]),
    ])
    return U
