"""C19: the status records of api::ca (what the status / issues views and the metrics are read from).  Per operation, on the
real text: a failure is shown exactly when the most recent recorded exchange failed (with that error), a recorded success clears
it and stamps last_success; the entitlements kept are those of the parent's last answer and all_resources is their union; the
published-file list after a successful delta is the old list with the delta applied element by element (publish adds, update
replaces every entry under the URI, withdraw removes every entry under the URI) -- one missed or doubly applied step fails."""
from vxlib import Unit
from units import prelude

CA = 'src/api/ca.rs'
KM = 'obeys_key_model::<ParentHandle>()'
ADM = 'src/api/admin.rs'

OUT = '''
pub mod uri { #[derive(Clone)] pub struct Rsync(pub u8); impl PartialEq for Rsync { fn eq(&self, _o: &Self) -> bool { unimplemented!() } } }
#[derive(Clone, Copy)] pub struct Timestamp(pub i64);
impl Timestamp { pub fn now() -> Timestamp { unimplemented!() } }
pub struct Publish(pub u8); pub struct Update(pub u8); pub struct Withdraw(pub u8);
pub enum PublishDeltaElement { Publish(Publish), Update(Update), Withdraw(Withdraw) }
impl Publish { pub fn unpack(self) -> (Option<String>, uri::Rsync, Base64) { unimplemented!() } }
impl Update { pub fn unpack(self) -> (Option<String>, uri::Rsync, Base64, Hash) { unimplemented!() } }
impl Withdraw { pub fn unpack(self) -> (Option<String>, uri::Rsync, Hash) { unimplemented!() } }
impl PublishDelta { pub fn into_elements(self) -> Vec<PublishDeltaElement> { unimplemented!() } }
impl ResourceSet { pub fn union(&self, _o: &ResourceSet) -> ResourceSet { unimplemented!() } }
impl Default for ResourceSet { fn default() -> Self { unimplemented!() } }
impl ResourceClassEntitlements { pub fn resource_set(&self) -> &ResourceSet { unimplemented!() } }
pub fn vx_clone_from<T: Clone>(v: &mut Vec<T>, src: &Vec<T>) { v.clone_from(src) }
impl ResourceClassListResponse { pub fn classes(&self) -> &Vec<ResourceClassEntitlements> { unimplemented!() } }
'''

SPEC = r'''
#[verifier::external_type_specification] #[verifier::external_body] pub struct ExRsync(uri::Rsync);
#[verifier::external_type_specification] #[verifier::external_body] pub struct ExTimestamp(Timestamp);
#[verifier::external_type_specification] #[verifier::external_body] pub struct ExPublish(Publish);
#[verifier::external_type_specification] #[verifier::external_body] pub struct ExUpdate(Update);
#[verifier::external_type_specification] #[verifier::external_body] pub struct ExWithdraw(Withdraw);
#[verifier::external_type_specification] pub struct ExPDE(PublishDeltaElement);
pub assume_specification [<uri::Rsync as Clone>::clone] (u: &uri::Rsync) -> (r: uri::Rsync) ensures r == *u;
pub assume_specification [<Timestamp as Clone>::clone] (u: &Timestamp) -> (r: Timestamp) ensures r == *u;
pub assume_specification [Timestamp::now] () -> (r: Timestamp);
impl vstd::std_specs::cmp::PartialEqSpecImpl for uri::Rsync {
    open spec fn obeys_eq_spec() -> bool { true }
    open spec fn eq_spec(&self, other: &uri::Rsync) -> bool { *self == *other }
}
pub assume_specification [<uri::Rsync as PartialEq>::eq] (a: &uri::Rsync, b: &uri::Rsync) -> (r: bool);

// ---- assumed externals: rpki-rs publication delta elements (what each element names), resource-set union ----
pub uninterp spec fn pub_uri(p: Publish) -> uri::Rsync;
pub uninterp spec fn pub_content(p: Publish) -> Base64;
pub uninterp spec fn upd_uri(p: Update) -> uri::Rsync;
pub uninterp spec fn upd_content(p: Update) -> Base64;
pub uninterp spec fn wdr_uri(p: Withdraw) -> uri::Rsync;
pub uninterp spec fn delta_elements(d: PublishDelta) -> Seq<PublishDeltaElement>;
pub assume_specification [Publish::unpack] (p: Publish) -> (r: (Option<String>, uri::Rsync, Base64)) ensures r.1 == pub_uri(p), r.2 == pub_content(p);
pub assume_specification [Update::unpack] (p: Update) -> (r: (Option<String>, uri::Rsync, Base64, Hash)) ensures r.1 == upd_uri(p), r.2 == upd_content(p);
pub assume_specification [Withdraw::unpack] (p: Withdraw) -> (r: (Option<String>, uri::Rsync, Hash)) ensures r.1 == wdr_uri(p);
pub assume_specification [PublishDelta::into_elements] (d: PublishDelta) -> (r: Vec<PublishDeltaElement>) ensures r@ == delta_elements(d);
pub uninterp spec fn rs_union(a: ResourceSet, b: ResourceSet) -> ResourceSet;
pub uninterp spec fn rs_empty() -> ResourceSet;
pub uninterp spec fn class_resources(c: ResourceClassEntitlements) -> ResourceSet;
pub uninterp spec fn response_classes(r: ResourceClassListResponse) -> Seq<ResourceClassEntitlements>;
pub assume_specification [ResourceSet::union] (a: &ResourceSet, b: &ResourceSet) -> (r: ResourceSet) ensures r == rs_union(*a, *b);
pub assume_specification [<ResourceSet as Default>::default] () -> (r: ResourceSet) ensures r == rs_empty();
pub assume_specification [ResourceClassEntitlements::resource_set] (c: &ResourceClassEntitlements) -> (r: &ResourceSet) ensures *r == class_resources(*c);
pub assume_specification [ResourceClassListResponse::classes] (c: &ResourceClassListResponse) -> (r: &Vec<ResourceClassEntitlements>) ensures r@ == response_classes(*c);
/// ASSUMED (std): Vec::clone_from makes the vector equal to the source (element clones are value-preserving, R11); Verus
/// does not support `clone_from`, the call is a tagged substitution (R14)
pub assume_specification<T: Clone> [vx_clone_from] (v: &mut Vec<T>, src: &Vec<T>) ensures final(v)@ == src@;
/// ASSUMED (std): Vec::retain keeps, in order, exactly the elements for which the predicate answers true
pub assume_specification<T, A: std::alloc::Allocator, F: FnMut(&T) -> bool> [Vec::<T, A>::retain] (v: &mut Vec<T, A>, f: F)
    requires forall |x: &T| #[trigger] call_requires(f, (x,)),
    ensures
        forall |x: T| #[trigger] final(v)@.contains(x) ==> old(v)@.contains(x) && call_ensures(f, (&x,), true),
        forall |x: T| #[trigger] old(v)@.contains(x) ==> final(v)@.contains(x) || call_ensures(f, (&x,), false);

// ---- the statement, per record ----
/// a status record for which no exchange was recorded yet
pub open spec fn never_contacted(s: ParentStatus) -> bool { s.last_exchange is None && s.last_success is None && s.classes@.len() == 0 && s.all_resources == rs_empty() }
pub open spec fn fresh_repo(r: RepoStatus) -> bool { r.last_exchange is None && r.last_success is None && r.published@.len() == 0 }
pub open spec fn fresh_child(c: ChildStatus) -> bool { c.last_exchange is None && c.last_success is None && c.suspended is None }
/// what the views show as "the failure": the error of the most recent exchange, if that exchange failed
pub open spec fn shown_failure(last: Option<ParentExchange>) -> Option<ErrorResponse> {
    match last { Some(ParentExchange { result: ExchangeResult::Failure(e), .. }) => Some(e), _ => None }
}
pub open spec fn union_of(cs: Seq<ResourceClassEntitlements>) -> ResourceSet decreases cs.len() {
    if cs.len() == 0 { rs_empty() } else { rs_union(union_of(cs.drop_last()), class_resources(cs.last())) }
}
/// the published-file list as a set of (uri, content) entries, pointwise: is (u, c) listed?
pub open spec fn listed(v: Seq<PublishedFile>, u: uri::Rsync, c: Base64) -> bool { v.contains(PublishedFile { uri: u, base64: c }) }
pub broadcast proof fn lemma_push_contains<T>(s: Seq<T>, x: T, y: T)
    ensures #[trigger] s.push(x).contains(y) == (s.contains(y) || x == y)
{
    if s.push(x).contains(y) { let i = choose |i: int| 0 <= i < s.push(x).len() && s.push(x)[i] == y; if i < s.len() { assert(s[i] == y); } }
    if s.contains(y) { let i = choose |i: int| 0 <= i < s.len() && s[i] == y; assert(s.push(x)[i] == y); }
    if x == y { assert(s.push(x)[s.len() as int] == y); }
}
/// one element of a successful delta applied to "is (u, c) listed", read off the STATEMENT (the list equals what the publication
/// server holds after the exchange): after a publish or an update the server holds exactly one object under that URI, the new one
/// -- also when the list still had an entry there that the server had lost (publisher removed and added again) --, after a withdraw
/// none; entries under other URIs are untouched
pub open spec fn step(was: bool, e: PublishDeltaElement, u: uri::Rsync, c: Base64) -> bool {
    match e {
        PublishDeltaElement::Publish(p) => (was && u != pub_uri(p)) || (u == pub_uri(p) && c == pub_content(p)),
        PublishDeltaElement::Update(p) => (was && u != upd_uri(p)) || (u == upd_uri(p) && c == upd_content(p)),
        PublishDeltaElement::Withdraw(p) => was && u != wdr_uri(p),
    }
}
pub open spec fn applied(v0: Seq<PublishedFile>, es: Seq<PublishDeltaElement>, u: uri::Rsync, c: Base64) -> bool decreases es.len() {
    if es.len() == 0 { listed(v0, u, c) } else { step(applied(v0, es.drop_last(), u, c), es.last(), u, c) }
}
'''


NO_FAILURE = ('no_failure_shown', 'shown_failure(final(self).last_exchange) is None && final(self).last_exchange is Some && final(self).last_exchange->Some_0.result is Success')
FOR_URI = ('for_this_uri', 'final(self).last_exchange->Some_0.uri == uri')
LAST_SUCCESS = ('last_success_is_this_exchange', 'final(self).last_success == Some(final(self).last_exchange->Some_0.timestamp)')
# the contracts of the record operations (verified here; unit c19_store calls the operations under exactly these contracts)
K = {
    'ParentStatus::set_failure': [
        ('the_failure_is_shown', 'shown_failure(final(self).last_exchange) == Some(error)'), FOR_URI,
        ('last_success_and_entitlements_kept', 'final(self).last_success == old(self).last_success && final(self).classes == old(self).classes && final(self).all_resources == old(self).all_resources')],
    'ParentStatus::set_last_updated': [NO_FAILURE, FOR_URI, LAST_SUCCESS,
        ('entitlements_kept', 'final(self).classes == old(self).classes && final(self).all_resources == old(self).all_resources')],
    'ParentStatus::set_entitlements': [NO_FAILURE, FOR_URI, LAST_SUCCESS,
        ('classes_are_those_of_the_answer', 'final(self).classes@ == response_classes(*entitlements)'),
        ('all_resources_is_their_union', 'final(self).all_resources == union_of(response_classes(*entitlements))')],
    'RepoStatus::set_failure': [
        ('the_failure_is_shown', 'shown_failure(final(self).last_exchange) == Some(error)'), FOR_URI,
        ('published_list_and_last_success_kept', 'final(self).last_success == old(self).last_success && final(self).published == old(self).published')],
    'RepoStatus::set_last_updated': [NO_FAILURE, FOR_URI, LAST_SUCCESS, ('published_list_kept', 'final(self).published == old(self).published')],
    'RepoStatus::update_published': [NO_FAILURE, FOR_URI, LAST_SUCCESS,
        ('published_list_is_the_old_list_with_the_delta_applied',
         'forall |u: uri::Rsync, c: Base64| listed(final(self).published@, u, c) == applied(old(self).published@, delta_elements(delta), u, c)')],
    'ChildStatus::set_success': [
        ('outcome_of_this_request_shown', 'final(self).last_exchange is Some && final(self).last_exchange->Some_0.result is Success && final(self).last_exchange->Some_0.user_agent == user_agent'),
        ('last_success_is_this_exchange', 'final(self).last_success == Some(final(self).last_exchange->Some_0.timestamp)'),
        ('no_longer_suspended', 'final(self).suspended is None')],
    'ChildStatus::set_failure': [
        ('outcome_of_this_request_shown', 'final(self).last_exchange is Some && final(self).last_exchange->Some_0.result == ExchangeResult::Failure(error_response) && final(self).last_exchange->Some_0.user_agent == user_agent'),
        ('last_success_kept', 'final(self).last_success == old(self).last_success'),
        ('no_longer_suspended', 'final(self).suspended is None')],
    'ChildStatus::set_suspended': [
        ('suspended', 'final(self).suspended is Some'),
        ('last_exchange_kept', 'final(self).last_exchange == old(self).last_exchange && final(self).last_success == old(self).last_success')],
    'ParentStatuses::get_or_default_mut': [
        ('entry_of_this_parent_default_if_new', 'if old(self).0@.contains_key(*parent) { *r == old(self).0@[*parent] } else { never_contacted(*r) }'),
        ('written_back_to_this_parent_only', 'final(self).0@ == old(self).0@.insert(*parent, *final(r))')],
    'ParentStatuses::remove': [
        ('only_this_parent_removed', 'final(self).0@ == old(self).0@.remove(*parent)'),
        ('says_whether_it_was_there', '(r is Some) == old(self).0@.contains_key(*parent)')],
}


def externals(U):
    for t in ['ErrorResponse', 'ServiceUri', 'Base64', 'ResourceSet', 'ResourceClassEntitlements']:
        U.opaque(t, 'Clone')
    for t in ['Hash', 'PublishDelta', 'ResourceClassListResponse']:
        U.opaque(t, '')
    U.outside(OUT)


def types(U, defaults=False):
    """defaults: also expand derive(Default) of the records the store creates on demand (R12, verified)"""
    dd = (lambda txt: dict(default_ensures=[('nothing_known_yet', txt)])) if defaults else (lambda txt: {})
    U.struct(ADM, 'PublishedFile', derive=['Clone'])
    U.enum(CA, 'ExchangeResult', derive=['Clone'])
    U.struct(CA, 'ParentExchange', derive=['Clone'])
    U.struct(CA, 'ParentStatus', derive=['Clone', 'Default'], default_ensures=[('nothing_known_yet', 'never_contacted(r)')])
    U.struct(CA, 'RepoStatus', derive=['Clone', 'Default'] if defaults else ['Clone'], **dd('fresh_repo(r)'))
    U.enum(CA, 'ChildState', derive=['Clone', 'Copy', 'PartialEq', 'Eq'])
    U.struct(CA, 'ChildExchange', derive=['Clone'])
    U.struct(CA, 'ChildStatus', derive=['Clone', 'Default'] if defaults else ['Clone'], **dd('fresh_child(r)'))
    U.struct(CA, 'ParentStatuses', derive=['Default'] if defaults else [], **dd('r.0@ == Map::<ParentHandle, ParentStatus>::empty()'))


def build():
    U = Unit('c19_status', 'C19', 'status records: failure shown iff the last recorded exchange failed; entitlements of the last answer; published list = old list with the delta applied')
    U.feature('allocator_api')
    prelude.strings(U)
    prelude.hashmap(U, get_mut=True)
    U.opaque('ParentHandle', 'Clone, PartialEq, Eq, Hash')
    externals(U)
    types(U)
    U.add(SPEC)
    U.impl('impl ExchangeResult', [
        U.fn(CA, 'ExchangeResult', 'was_success', ensures=[('iff_success', 'r == (*self is Success)')]),
    ])
    U.impl('impl ParentExchange', [
        U.fn(CA, 'ParentExchange', 'opt_failure', ensures=[('is_the_error_of_a_failed_exchange', 'r == shown_failure(Some(*self))')]),
    ])
    OPT = {0: {'header': '|e: &ParentExchange| -> (o: Option<ErrorResponse>)', 'ensures': 'o == shown_failure(Some(*e))'}}
    U.impl('impl ParentStatus', [
        U.fn(CA, 'ParentStatus', 'opt_failure', closures=OPT, ensures=[('failure_shown_iff_last_exchange_failed', 'r == shown_failure(self.last_exchange)')]),
        U.fn(CA, 'ParentStatus', 'set_failure', ensures=K['ParentStatus::set_failure']),
        U.fn(CA, 'ParentStatus', 'set_last_updated', ensures=K['ParentStatus::set_last_updated']),
        U.fn(CA, 'ParentStatus', 'set_entitlements', ensures=K['ParentStatus::set_entitlements'],
             subst=[('self.classes.clone_from(entitlements.classes())', 'vx_clone_from(&mut self.classes, entitlements.classes())', 'R14')],
             loops={0: {'iter': 'vx_it', 'invariant': [
                 ('seq', 'vx_it.seq().unref() == self.classes@'),
                 ('union_so_far', 'all_resources == union_of(self.classes@.take(vx_it.index@ as int))'),
                 ('rest', 'self.classes@ == response_classes(*entitlements) && self.last_exchange is Some && self.last_exchange->Some_0.result is Success && self.last_exchange->Some_0.uri == uri && self.last_success == Some(self.last_exchange->Some_0.timestamp)'),
             ]}}, ghost=[(('loop_start', 0), 'proof { assert(self.classes@.take(vx_it.index@ as int + 1).drop_last() == self.classes@.take(vx_it.index@ as int)); }'),
                         (('body_end',), 'proof { assert(self.classes@.take(self.classes@.len() as int) == self.classes@); }')]),
    ])
    U.impl('impl RepoStatus', [
        U.fn(CA, 'RepoStatus', 'opt_failure', closures=OPT, ensures=[('failure_shown_iff_last_exchange_failed', 'r == shown_failure(self.last_exchange)')]),
        U.fn(CA, 'RepoStatus', 'set_failure', ensures=K['RepoStatus::set_failure']),
        U.fn(CA, 'RepoStatus', 'set_last_updated', ensures=K['RepoStatus::set_last_updated']),
        U.fn(CA, 'RepoStatus', 'update_published',
             closures={'|el|*': {'header': '|el: &PublishedFile| -> (o: bool)', 'ensures': 'o == (el.uri != uri)'}},
             ensures=K['RepoStatus::update_published'],
             loops={0: {'iter': 'vx_it', 'invariant': [
                 ('seq', 'vx_it.seq() == delta_elements(delta)'),
                 ('applied_so_far', '''forall |u: uri::Rsync, c: Base64| #![trigger listed(self.published@, u, c)] #![trigger applied(old(self).published@, vx_it.seq().take(vx_it.index@ as int), u, c)]
                    listed(self.published@, u, c) == applied(old(self).published@, vx_it.seq().take(vx_it.index@ as int), u, c)'''),
                 ('rest', 'self.last_exchange is Some && self.last_exchange->Some_0.result is Success && self.last_exchange->Some_0.uri == uri && self.last_exchange->Some_0.timestamp == timestamp'),
             ]}}, ghost=[(('loop_start', 0), '''broadcast use lemma_push_contains;
proof { let ghost es = vx_it.seq().take(vx_it.index@ as int + 1);
  assert(es.drop_last() == vx_it.seq().take(vx_it.index@ as int));
  assert(es.last() == @LV0@);
  assert forall |u: uri::Rsync, c: Base64| #[trigger] applied(old(self).published@, es, u, c) == step(applied(old(self).published@, vx_it.seq().take(vx_it.index@ as int), u, c), @LV0@, u, c) by {}
}'''),
                         (('body_end',), 'proof { assert(delta_elements(delta).take(delta_elements(delta).len() as int) == delta_elements(delta)); }')]),
    ])
    U.impl('impl ChildStatus', [
        U.fn(CA, 'ChildStatus', 'set_success', ensures=K['ChildStatus::set_success']),
        U.fn(CA, 'ChildStatus', 'set_failure', ensures=K['ChildStatus::set_failure']),
        U.fn(CA, 'ChildStatus', 'set_suspended', ensures=K['ChildStatus::set_suspended']),
        U.fn(CA, 'ChildStatus', 'child_state', ensures=[('suspended_iff_marked', '(r is Suspended) == (self.suspended is Some)')]),
    ])
    U.impl('impl ParentStatuses', [
        U.fn(CA, 'ParentStatuses', 'get', requires=[('km', KM)], ensures=[
            ('is_the_entry', 'r == (if self.0@.contains_key(*parent) { Some(&self.0@[*parent]) } else { None::<&ParentStatus> })')]),
        U.fn(CA, 'ParentStatuses', 'get_or_default_mut', requires=[('km', KM)], ensures=K['ParentStatuses::get_or_default_mut']),
        U.fn(CA, 'ParentStatuses', 'remove', requires=[('km', KM)], ensures=K['ParentStatuses::remove']),
    ])
    return U
