"""C09: TaskQueue::reschedule_tasks_at_startup -- after a restart no task stays in the running state (a stuck running entry
blocks schedule_missing of the same recurring task for ever), whatever the number of tasks that were running."""
from vxlib import Unit
from units import prelude

MQ = 'src/server/mq.rs'

SPEC = r'''
// ---- ghost model of the trusted queue (commons::queue::Queue: closures over a key-value transaction; specified, not verified) ----
pub uninterp spec fn running(q: Queue) -> Set<Ident>;        // storage keys of running entries
pub uninterp spec fn pending(q: Queue) -> Set<Ident>;        // storage keys (of origin) that are pending again
pub uninterp spec fn qstart_name() -> Ident;
impl Queue {
    #[verifier::external_body]
    pub fn running_tasks_keys(&mut self) -> (r: Result<Vec<Box<Ident>>, QueueError>)
        ensures *final(self) == *old(self),
            r is Ok ==> (forall |k: Ident| running(*old(self)).contains(k) <==> exists |i: int| 0 <= i < r->Ok_0@.len() && *#[trigger] r->Ok_0@[i] == k)
    { unimplemented!() }
    /// the other re-queueing entry point of the queue: moves only the running entries that are older than the time-out
    /// (some subset of the running entries; which ones depends on the clock)
    #[verifier::external_body]
    pub fn reschedule_long_running_tasks(&mut self, reschedule_after: Option<Duration>) -> (r: Result<(), QueueError>)
        ensures
            running(*final(self)).subset_of(running(*old(self))),
            forall |k: Ident| pending(*old(self)).contains(k) ==> pending(*final(self)).contains(k),
            forall |k: Ident| running(*old(self)).contains(k) && !running(*final(self)).contains(k) ==> pending(*final(self)).contains(k),
    { unimplemented!() }
    #[verifier::external_body]
    pub fn reschedule_running_task(&mut self, storage_key: &Ident, timestamp_millis: Option<u128>) -> (r: Result<(), QueueError>)
        ensures
            r is Ok ==> running(*final(self)) == running(*old(self)).remove(*storage_key) && pending(*final(self)) == pending(*old(self)).insert(*storage_key),
            r is Err ==> *final(self) == *old(self)
    { unimplemented!() }
}
pub assume_specification [Task::name] (t: &Task) -> (r: Box<Ident>) ensures t is QueueStartTasks ==> *r == qstart_name();
// (the function is verified with loop_isolation(false): what is known about locals bound before the loop -- here the name of the
//  QueueStartTasks task, whatever the local is called -- stays known inside it, so the contract names no local)
impl vstd::std_specs::cmp::PartialEqSpecImpl for Ident {
    open spec fn obeys_eq_spec() -> bool { true }
    open spec fn eq_spec(&self, other: &Ident) -> bool { *self == *other }
}
pub assume_specification [<Ident as PartialEq>::eq] (a: &Ident, b: &Ident) -> (r: bool);
pub assume_specification [<Error as From<QueueError>>::from] (e: QueueError) -> (o: Error);
pub assume_specification<'a, T, A> [<std::boxed::Box<T, A> as std::convert::AsRef<T>>::as_ref] (b: &'a std::boxed::Box<T, A>) -> (r: &'a T)
           where A: std::alloc::Allocator, T: std::marker::MetaSized + ?Sized,
    ensures r == &**b;
'''


def build():
    U = Unit('c09_taskqueue', 'C09', 'restart re-queues every task that was running (no stuck running entry), for any number of running tasks')
    U.feature('allocator_api', 'sized_hierarchy')
    prelude.strings(U)
    U.opaque('Ident', 'PartialEq')
    U.opaque('Queue', '')
    U.opaque('QueueError', '')
    U.opaque('Duration', '')
    U.opaque('Error', '')
    U.outside('''
pub type KrillResult<T> = Result<T, Error>;
impl From<QueueError> for Error { fn from(_: QueueError) -> Self { unimplemented!() } }
pub enum Task { QueueStartTasks, VxOther }
impl Task { pub fn name(&self) -> Box<Ident> { unimplemented!() } }
''')
    U.add('#[verifier::external_type_specification] pub struct ExTask(Task);')
    U.struct(MQ, 'TaskQueue', derive=[])
    U.add(SPEC)
    U.impl('impl TaskQueue', [
        U.fn(MQ, 'TaskQueue', 'reschedule_tasks_at_startup', mut_self=True, attrs=['#[verifier::loop_isolation(false)]'], ensures=[
            ('nothing_left_running', 'r is Ok ==> forall |k: Ident| running(final(self).q).contains(k) ==> k == qstart_name()'),
            ('every_running_task_requeued', 'r is Ok ==> forall |k: Ident| running(old(self).q).contains(k) && k != qstart_name() ==> pending(final(self).q).contains(k)'),
        ], loops={0: {'iter': 'vx_it', 'invariant': [
            ('keys', 'forall |k: Ident| running(old(self).q).contains(k) <==> exists |i: int| 0 <= i < vx_it.seq().len() && *#[trigger] vx_it.seq()[i] == k'),
            ('remaining_running_are_to_come', '''forall |k: Ident| running(self.q).contains(k) ==> k == qstart_name()
                || exists |i: int| vx_it.index@ <= i < vx_it.seq().len() && *#[trigger] vx_it.seq()[i] == k'''),
            ('visited_requeued', '''forall |i: int| 0 <= i < vx_it.index@ && *(#[trigger] vx_it.seq()[i]) != qstart_name() ==> pending(self.q).contains(*vx_it.seq()[i])'''),
            ('pending_monotone', 'forall |k: Ident| pending(old(self).q).contains(k) ==> pending(self.q).contains(k)'),
        ]}},
        ghost=[(('loop_start', 0), 'proof { assert(@LV0@ == vx_it.seq()[vx_it.index@ as int]); }')]),
    ])
    return U
