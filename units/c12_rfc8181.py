"""C12/C10: an RFC 8181 request is processed only after its CMS validated under the ID key registered for the publisher named
in the URL; deltas are applied under THAT publisher's base URI; the publish is followed by scheduling the RRDP update (C09)."""
from vxlib import Unit
from units import prelude

MGR = 'src/server/pubd/manager.rs'
ACC = 'src/server/pubd/access.rs'
PUBS = 'src/server/pubd/publishers.rs'
ERR = 'src/commons/error.rs'

OUT = '''
use std::sync::Arc;
pub type KrillResult<T> = Result<T, Error>;
pub struct AggregateStore<T>(pub Vec<T>);
pub mod uri { #[derive(Clone)] pub struct Rsync(pub u8); }
pub struct Config { pub rfc8181_log_dir: Option<LogDir> }
pub mod publication {
    use super::*;
    pub struct Message(pub u8);
    pub enum Query { List, Delta(PublishDelta) }
    impl PartialEq for Query { fn eq(&self, _o: &Self) -> bool { unimplemented!() } }
    impl Message {
        pub fn as_query(self) -> Result<Query, PubError> { unimplemented!() }
        pub fn error(_e: ErrorReply) -> Message { unimplemented!() }
        pub fn list_reply(_l: ListReply) -> Message { unimplemented!() }
        pub fn success() -> Message { unimplemented!() }
    }
    pub struct ReportError(pub u8); pub struct ErrorReply(pub u8); pub struct ReportErrorCode(pub u8);
    pub type Error = super::PubError;
    impl ReportError { pub fn with_code(_c: ReportErrorCode) -> Self { unimplemented!() } }
    impl ErrorReply { pub fn for_error(_e: ReportError) -> Self { unimplemented!() } }
}
impl From<PubError> for Error { fn from(_e: PubError) -> Self { unimplemented!() } }
impl Error {
    pub fn to_rfc8181_error_code(&self) -> publication::ReportErrorCode { unimplemented!() }
    pub fn signer(_e: SignerError) -> Self { unimplemented!() }
}
impl PublicationCms {
    pub fn decode(_b: &[u8]) -> Result<PublicationCms, PubError> { unimplemented!() }
    pub fn validate(&self, _k: &PublicKey) -> Result<(), PubError> { unimplemented!() }
    pub fn into_message(self) -> publication::Message { unimplemented!() }
    pub fn to_bytes(&self) -> Bytes { unimplemented!() }
}
impl std::ops::Deref for Bytes { type Target = [u8]; fn deref(&self) -> &[u8] { unimplemented!() } }
impl CmsLogger {
    pub fn for_rfc8181_rcvd(_d: Option<&LogDir>, _p: &PublisherHandle) -> Self { unimplemented!() }
    pub fn received(&self, _b: &Bytes) -> KrillResult<()> { unimplemented!() }
    pub fn reply(&self, _b: &Bytes) -> KrillResult<()> { unimplemented!() }
}
impl KrillSigner { pub fn create_rfc8181_cms(&self, _m: publication::Message, _k: &KeyIdentifier) -> Result<PublicationCms, SignerError> { unimplemented!() } }
pub fn now() -> Timestamp { unimplemented!() }
'''

SPEC = r'''
#[verifier::external_type_specification] #[verifier::external_body] #[verifier::reject_recursive_types(T)] pub struct ExAggregateStore<T>(AggregateStore<T>);
#[verifier::external_type_specification] #[verifier::external_body] pub struct ExRsync(uri::Rsync);
pub assume_specification [<uri::Rsync as Clone>::clone] (u: &uri::Rsync) -> (r: uri::Rsync) ensures r == *u;
#[verifier::external_type_specification] pub struct ExConfig(Config);
#[verifier::external_type_specification] #[verifier::external_body] pub struct ExMessage(publication::Message);
#[verifier::external_type_specification] pub struct ExQuery(publication::Query);
#[verifier::external_type_specification] #[verifier::external_body] pub struct ExRE(publication::ReportError);
#[verifier::external_type_specification] #[verifier::external_body] pub struct ExER(publication::ErrorReply);
#[verifier::external_type_specification] #[verifier::external_body] pub struct ExREC(publication::ReportErrorCode);
impl vstd::std_specs::cmp::PartialEqSpecImpl for publication::Query {
    open spec fn obeys_eq_spec() -> bool { true }
    open spec fn eq_spec(&self, other: &publication::Query) -> bool { *self == *other }
}
pub assume_specification [<publication::Query as PartialEq>::eq] (a: &publication::Query, b: &publication::Query) -> (r: bool);

// ---- assumed externals (rpki-rs CMS, stores) ----
pub uninterp spec fn pcms_valid(c: PublicationCms, k: PublicKey) -> bool;
pub uninterp spec fn pcms_decode(b: Seq<u8>) -> Option<PublicationCms>;
pub uninterp spec fn pcms_query(c: PublicationCms) -> Option<publication::Query>;
pub uninterp spec fn pcms_message(c: PublicationCms) -> publication::Message;
pub uninterp spec fn msg_query(m: publication::Message) -> Option<publication::Query>;
pub assume_specification [PublicationCms::decode] (b: &[u8]) -> (r: Result<PublicationCms, PubError>)
    ensures r is Ok <==> pcms_decode(b@) is Some, r is Ok ==> r->Ok_0 == pcms_decode(b@)->Some_0;
pub assume_specification [PublicationCms::validate] (c: &PublicationCms, k: &PublicKey) -> (r: Result<(), PubError>) ensures r is Ok <==> pcms_valid(*c, *k);
pub assume_specification [PublicationCms::into_message] (c: PublicationCms) -> (m: publication::Message) ensures m == pcms_message(c);
pub assume_specification [PublicationCms::to_bytes] (c: &PublicationCms) -> (b: Bytes);
pub assume_specification [publication::Message::as_query] (m: publication::Message) -> (r: Result<publication::Query, PubError>)
    ensures r is Ok <==> msg_query(m) is Some, r is Ok ==> r->Ok_0 == msg_query(m)->Some_0;
pub assume_specification [publication::Message::error] (e: publication::ErrorReply) -> (m: publication::Message);
pub assume_specification [publication::Message::list_reply] (l: ListReply) -> (m: publication::Message);
pub assume_specification [publication::Message::success] () -> (m: publication::Message);
pub assume_specification [publication::ReportError::with_code] (c: publication::ReportErrorCode) -> (r: publication::ReportError);
pub assume_specification [publication::ErrorReply::for_error] (e: publication::ReportError) -> (r: publication::ErrorReply);
pub assume_specification [<Error as From<PubError>>::from] (e: PubError) -> (r: Error);
pub assume_specification [Error::to_rfc8181_error_code] (e: &Error) -> (r: publication::ReportErrorCode);
pub assume_specification [Error::signer] (e: SignerError) -> (r: Error);
pub uninterp spec fn bytes_view(b: Bytes) -> Seq<u8>;
impl Bytes { #[verifier::external_body] pub fn vx_deref(&self) -> (r: &[u8]) ensures r@ == bytes_view(*self) { unimplemented!() } }
pub assume_specification [<Bytes as std::ops::Deref>::deref] (b: &Bytes) -> (r: &[u8]) ensures r@ == bytes_view(*b);
pub assume_specification [CmsLogger::for_rfc8181_rcvd] (d: Option<&LogDir>, p: &PublisherHandle) -> (l: CmsLogger);
pub assume_specification [CmsLogger::received] (l: &CmsLogger, b: &Bytes) -> (r: KrillResult<()>);
pub assume_specification [CmsLogger::reply] (l: &CmsLogger, b: &Bytes) -> (r: KrillResult<()>);
pub assume_specification [KrillSigner::create_rfc8181_cms] (s: &KrillSigner, m: publication::Message, k: &KeyIdentifier) -> (r: Result<PublicationCms, SignerError>);
pub assume_specification [now] () -> (t: Timestamp);
impl KrillRuntime {
    #[verifier::external_body] pub fn config(&self) -> (c: &Config) { unimplemented!() }
    #[verifier::external_body] pub fn signer(&self) -> (c: &KrillSigner) { unimplemented!() }
    #[verifier::external_body] pub fn tasks(&self) -> (c: &TaskQueue) ensures *c == tasks_of(*self) { unimplemented!() }
}
pub uninterp spec fn tasks_of(k: KrillRuntime) -> TaskQueue;
/// the task was put on the queue by `schedule` (ScheduleMode::ReplaceExistingSoonest: pending at the requested time or earlier, also
/// while an instance of the task is running -- contract of the queue, units c09_queue / c09_events); `schedule_missing` (IfMissing)
/// gives no such guarantee
pub uninterp spec fn scheduled_now(q: TaskQueue, t: Task) -> bool;
pub enum Task { RrdpUpdateIfNeeded, VxOther }
impl TaskQueue {
    #[verifier::external_body] pub fn schedule(&self, task: Task, t: Timestamp) -> (r: KrillResult<()>) ensures r is Ok ==> scheduled_now(*self, task) { unimplemented!() }
    #[verifier::external_body] pub fn schedule_missing(&self, task: Task, t: Timestamp) -> (r: KrillResult<()>) { unimplemented!() }
}

/// the publisher registered under a handle in the access aggregate (store: assumed external)
pub uninterp spec fn registered(a: RepositoryAccessProxy, h: PublisherHandle) -> Option<Publisher>;
/// capability: these bytes were validated under the ID key registered for this publisher
pub open spec fn validated8181(a: RepositoryAccessProxy, h: PublisherHandle, cms: PublicationCms) -> bool {
    registered(a, h) is Some && pcms_valid(cms, registered(a, h)->Some_0.id_cert.public_key)
}
'''


def build():
    U = Unit('c12_rfc8181', 'C12', 'RFC 8181: processing requires a CMS validated under the named publisher\'s registered ID key; the delta is jailed to that publisher\'s base URI')
    prelude.strings(U)
    for t in ['PublisherHandle', 'Base64', 'Hash', 'PublicKey', 'MyHandle', 'PublicationCms']:
        U.opaque(t, 'Clone')
    for t in ['Bytes', 'KrillRuntime', 'KrillSigner', 'CmsLogger', 'LogDir', 'PubError', 'SignerError', 'KeyIdentifier', 'ListReply', 'PublishDelta',
              'RepositoryContentProxy', 'RrdpUpdatesConfig', 'RepositoryAccess', 'TaskQueue', 'Timestamp']:
        U.opaque(t, '')
    U.outside(OUT)
    U.struct('src/api/ca.rs', 'IdCertInfo', derive=['Clone'])
    U.struct(PUBS, 'Publisher', derive=['Clone'])
    U.struct(ACC, 'RepositoryAccessProxy', derive=[])
    U.struct(MGR, 'RepositoryManager', derive=[])
    U.enum(ERR, 'Error', keep=['Rfc8181', 'Custom', 'PublisherUnknown'], derive=[])
    U.add(SPEC)
    U.impl('impl Publisher', [
        U.fn(PUBS, 'Publisher', 'id_cert', ensures=[('is_field', '*r == self.id_cert')]),
        U.fn(PUBS, 'Publisher', 'base_uri', ensures=[('is_field', '*r == self.base_uri')]),
    ])
    U.impl('impl RepositoryAccessProxy', [
        U.fn(ACC, 'RepositoryAccessProxy', 'get_publisher', external_body=True, ensures=[
            ('is_registered', 'r is Ok ==> registered(*self, *name) == Some(r->Ok_0)')]),
        U.fn(ACC, 'RepositoryAccessProxy', 'decode_and_validate',
             eta=['Error::Rfc8181'],
             ensures=[
            ('only_registered_identity_key', 'r is Ok ==> validated8181(*self, *publisher, r->Ok_0) && pcms_decode(bytes@) == Some(r->Ok_0)'),
            ('bad_signature_or_unknown_publisher_refused', '''pcms_decode(bytes@) is Some && registered(*self, *publisher) is Some
                && !pcms_valid(pcms_decode(bytes@)->Some_0, registered(*self, *publisher)->Some_0.id_cert.public_key) ==> r is Err'''),
        ]),
        U.fn(ACC, 'RepositoryAccessProxy', 'create_response', external_body=True),
    ])
    U.impl('impl RepositoryContentProxy', [
        U.fn('src/server/pubd/content.rs', 'RepositoryContentProxy', 'publish', external_body=True, requires=[
            ('jail_is_the_publishers_own', '''exists |a: RepositoryAccessProxy| registered(a, publisher) is Some && jail == registered(a, publisher)->Some_0.base_uri''')]),
    ])
    U.impl('impl RepositoryManager', [
        U.fn(MGR, 'RepositoryManager', 'list', external_body=True),
        U.fn(MGR, 'RepositoryManager', 'publish', ensures=[
            ('rrdp_update_follows_every_accepted_publication', 'r is Ok ==> scheduled_now(tasks_of(*krill), Task::RrdpUpdateIfNeeded)')]),
        U.fn(MGR, 'RepositoryManager', 'rfc8181_message', requires=[
            ('query_was_validated', '''exists |cms: PublicationCms| validated8181(self.access, *publisher_handle, cms) && msg_query(pcms_message(cms)) == Some(query)''')]),
        U.fn(MGR, 'RepositoryManager', 'rfc8181'),
    ])
    return U
